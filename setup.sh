#!/bin/sh
# setup_cmd: builds the driver and warms the Go build cache, offline.
set -e
ROOT=$(cd "$(dirname "$0")" && pwd)
export GOFLAGS=-mod=mod GOPROXY=off GOSUMDB=off GOTOOLCHAIN=local
mkdir -p "$ROOT/.build" "$ROOT/evidence" "$ROOT/replays"
cd "$ROOT/harness"
CGO_ENABLED=0 go build -o "$ROOT/.build/vrun" ./cmd/vrun
# warm the cache: compile every check once (binaries are rebuilt by each check anyway)
for d in props/*/; do
  p=$(basename "$d")
  case "$p" in
    c19) CGO_ENABLED=1 go test -c -race -tags verif -vet=off -o /dev/null "./props/$p" || true ;;
    *)   CGO_ENABLED=0 go test -c -tags verif -vet=off -o /dev/null "./props/$p" || true ;;
  esac
done
echo setup done
