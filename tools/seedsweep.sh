#!/bin/sh
# seedsweep.sh [jobs] — re-confirms every stored seeded change against /repo's HEAD and refreshes detected_by.
# Prints one line per change; a patch that no longer applies must be ported by hand (see DESIGN.md section 9).
ROOT=$(cd "$(dirname "$0")/.." && pwd)
JOBS=${1:-4}
TMP=$(mktemp -d /tmp/seedsweep.XXXXXX)
ls "$ROOT/seeded" | while read slug; do
  [ -f "$ROOT/seeded/$slug/meta.json" ] || continue
  echo "$slug"
done | xargs -P "$JOBS" -I{} sh -c '
  slug={}; ROOT='"$ROOT"'; TMP='"$TMP"'
  mkdir -p $TMP/$slug && cp $ROOT/seeded/$slug/patch.diff $ROOT/seeded/$slug/*_test.go $TMP/$slug/ 2>/dev/null
  [ -f $ROOT/seeded/$slug/patch.orig ] && cp $ROOT/seeded/$slug/patch.orig $TMP/$slug/
  [ -f $ROOT/seeded/$slug/notes.md ] && cp $ROOT/seeded/$slug/notes.md $TMP/$slug/
  prop=$(python3 -c "import json;m=json.load(open(\"$ROOT/seeded/$slug/meta.json\"));print(m[\"property\"])")
  also=$(python3 -c "import json;m=json.load(open(\"$ROOT/seeded/$slug/meta.json\"));print(\",\".join(k for k in m.get(\"checks\") or dict() if k!=m[\"property\"]))")
  out=$(python3 $ROOT/tools/seedtest.py $prop $TMP/$slug $slug ${also:+--also $also} 2>&1 | tail -3 | tr "\n" " ")
  echo "$slug: $out"
'
rm -rf "$TMP"
