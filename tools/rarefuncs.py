#!/usr/bin/env python3
"""rarefuncs.py — per property, the functions of its anchored files that at most one stored seeded change touches
(written to /tmp/rare_funcs.json, which seedprompt.py reads for angle 9)."""
import glob, re, collections, json, os
ROOT = os.path.dirname(os.path.dirname(os.path.abspath(__file__)))
cnt = collections.Counter()
for p in glob.glob(os.path.join(ROOT, 'seeded/*/patch.diff')):
    cur, seen = None, set()
    for ln in open(p):
        m = re.match(r'\+\+\+ b/(\S+)', ln)
        if m:
            cur = m.group(1)
        m = re.match(r'@@ .* @@ func (\([^)]*\)\s*)?(\w+)', ln)
        if m and cur:
            seen.add((cur, m.group(2)))
    for k in seen:
        cnt[k] += 1
funcs = collections.defaultdict(list)
for f in glob.glob('/repo/pkg/yang/*.go') + glob.glob('/repo/pkg/indent/*.go') + glob.glob('/repo/*.go') + glob.glob('/repo/pkg/yangentry/*.go'):
    if f.endswith('_test.go'):
        continue
    rel = f.replace('/repo/', '')
    src = open(f).read()
    for m in re.finditer(r'^func (\([^)]*\)\s*)?(\w+)\(', src, re.M):
        end = src.find('\n}\n', m.start())
        funcs[rel].append((m.group(2), src[m.start():end].count('\n')))
skip = {'String', 'Kind', 'NName', 'ParentNode', 'Statement', 'Exts', 'Groupings', 'Typedefs', 'Identities', 'init', 'Len', 'Swap'}
out = {}
for l in open(os.path.join(ROOT, 'properties.jsonl')):
    d = json.loads(l)
    names = set()
    for f in d['anchors']['files']:
        for fn, n in funcs.get(f, []):
            if cnt[(f, fn)] <= 1 and n >= 4 and fn not in skip:
                names.add(f.split('/')[-1] + ':' + fn)
    out[d['id']] = sorted(names)
json.dump(out, open('/tmp/rare_funcs.json', 'w'))
print({k: len(v) for k, v in out.items()})
