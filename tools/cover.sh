#!/bin/sh
# cover.sh [checks-per-property] [out-dir]
# Statement coverage of goyang (pkg/yang, pkg/indent, pkg/yangentry) reached by the random + replay + enumerated
# tiers of every check, one shard each. An analysis aid for steering the generators (which statements of the code
# behind a property does no generated case reach?) - not a check and not evidence.
ROOT=$(cd "$(dirname "$0")/.." && pwd)
N=${1:-3000}
OUT=${2:-/tmp/verif-cover}
export GOFLAGS=-mod=mod GOPROXY=off GOSUMDB=off GOTOOLCHAIN=local
mkdir -p "$OUT"
cd "$ROOT/harness" || exit 2
for d in props/c*/; do
  p=$(basename "$d")
  [ "$p" = c19 ] && continue   # one child process per case; its coverage is that of C04/C17 readers
  ( CGO_ENABLED=0 go test -c -tags verif -vet=off -cover -coverpkg=github.com/openconfig/goyang/pkg/... -o "$OUT/$p.test" "./props/$p" || exit 2
    mkdir -p "$OUT/run-$p"; cd "$OUT/run-$p" || exit 2
    VERIF_TIER=quick VERIF_SEED=1 VERIF_SHARD=0 VERIF_SHARDS=1 VERIF_OUT="$OUT/run-$p" VERIF_ROOT="$ROOT" VERIF_REPO=/repo \
      VERIF_EVIDENCE="$OUT/ev" VERIF_REPLAYS="$OUT/replays" VERIF_SELF="$OUT/$p.test" \
      timeout 900 "$OUT/$p.test" -test.run='^TestCheck$' -test.timeout=0 -test.count=1 -rapid.checks="$N" -rapid.seed=12345 -rapid.nofailfile \
      -test.coverprofile="$OUT/$p.cov" > "$OUT/$p.log" 2>&1
    echo "$p exit=$?" ) &
done
wait
# merge: a block is covered if any profile covers it
python3 - "$OUT" <<'PY'
import sys,glob,os,re,collections
out=sys.argv[1]
blocks={}
per={}
for f in sorted(glob.glob(out+'/c*.cov')):
    p=os.path.basename(f)[:-4]
    for ln in open(f):
        if ln.startswith('mode:'): continue
        m=re.match(r'(\S+):(\d+)\.(\d+),(\d+)\.(\d+) (\d+) (\d+)',ln)
        if not m: continue
        k=(m.group(1),int(m.group(2)),int(m.group(3)),int(m.group(4)),int(m.group(5)),int(m.group(6)))
        c=int(m.group(7))
        blocks[k]=blocks.get(k,0)+c
        if c: per.setdefault(k,set()).add(p)
with open(out+'/merged.cov','w') as w:
    w.write('mode: count\n')
    for k,c in sorted(blocks.items()):
        w.write('%s:%d.%d,%d.%d %d %d\n'%(k[0],k[1],k[2],k[3],k[4],k[5],c))
tot=sum(k[5] for k in blocks); cov=sum(k[5] for k,c in blocks.items() if c)
print('statements %d covered %d (%.1f%%)'%(tot,cov,100.0*cov/max(tot,1)))
PY
go tool cover -func="$OUT/merged.cov" | awk '$3!="100.0%"' > "$OUT/func.txt"
echo "functions below 100%: $(wc -l < "$OUT/func.txt")  -> $OUT/func.txt ; uncovered blocks: go tool cover -html=$OUT/merged.cov or tools/uncovered.py"
