#!/usr/bin/env python3
"""ledger.py fixed <PROP> <commit> <replay.json> <slug> <what...>   — record a repaired defect and keep its input in the replay tier
   ledger.py open  <PROP> <signature-regex> <replay.json|-> <slug> <what...> — record an open finding"""
import json, os, shutil, sys
ROOT = os.path.dirname(os.path.dirname(os.path.abspath(__file__)))
L = os.path.join(ROOT, "known_findings.json")
def main():
    kind, prop, a, replay, slug = sys.argv[1:6]
    what = " ".join(sys.argv[6:])
    led = json.load(open(L))
    cdir = os.path.join(ROOT, "corpus", prop.lower())
    os.makedirs(cdir, exist_ok=True)
    entry = {"property": prop, "what": what}
    if replay != "-":
        r = json.load(open(replay))
        dst = os.path.join(cdir, ("fixed-" if kind == "fixed" else "open-") + slug + ".json")
        json.dump(r, open(dst, "w"), indent=1)
        entry["corpus"] = os.path.relpath(dst, ROOT)
        if r.get("violations"):
            entry["signature"] = r["violations"][0]["signature"]
    if kind == "fixed":
        entry["commit"] = a
        entry["line"] = f"fixed: property={prop} {a} {what}"
        led["fixed"].append(entry)
    else:
        entry["signature"] = a
        led["open"].append(entry)
    json.dump(led, open(L, "w"), indent=1)
    print("recorded", entry.get("signature"), "->", entry.get("corpus"))
main()
