#!/bin/sh
# seedrecheck.sh <slug>...  — re-confirm stored seeded changes against /repo's HEAD with the current checks (what
# seedsweep.sh does for all of them)
ROOT=$(cd "$(dirname "$0")/.." && pwd)
for slug in "$@"; do
  TMP=$(mktemp -d /tmp/seedre.XXXXXX)
  cp "$ROOT/seeded/$slug/patch.diff" "$ROOT"/seeded/$slug/*_test.go "$TMP/" 2>/dev/null
  [ -f "$ROOT/seeded/$slug/patch.orig" ] && cp "$ROOT/seeded/$slug/patch.orig" "$TMP/"
  [ -f "$ROOT/seeded/$slug/notes.md" ] && cp "$ROOT/seeded/$slug/notes.md" "$TMP/"
  prop=$(python3 -c "import json;m=json.load(open('$ROOT/seeded/$slug/meta.json'));print(m['property'])")
  also=$(python3 -c "import json;m=json.load(open('$ROOT/seeded/$slug/meta.json'));print(','.join(k for k in (m.get('checks') or {}) if k!=m['property']))")
  out=$(python3 "$ROOT/tools/seedtest.py" "$prop" "$TMP" "$slug" ${also:+--also $also} 2>&1 | tail -3 | tr '\n' ' ')
  echo "$slug: $out"
  rm -rf "$TMP"
done
