#!/usr/bin/env python3
"""seedprompt.py <PROP> <worktree> <out-dir> <angle-no>  — prints the brief for an independent sub-agent.

The brief holds the text of one property, the path of the agent's own scratch worktree and where to put the
deliverables; nothing of /verif (no check, generator, oracle, earlier change) is mentioned."""
import json, sys

ANGLES = {
    1: "Prefer a change made of TWO cooperating sites that each look fine alone (for instance a helper that becomes slightly more permissive plus a caller that relied on the strictness; a cache plus a reset that forgets it; a copy that shares one more field plus a later write through it), or one that needs a multi-step sequence of operations (several loads and Process calls, a failed load in between, a later revision arriving, reading before writing) to manifest.",
    2: "Prefer a change that needs an UNUSUAL INPUT SHAPE to manifest: a rarely combined pair of YANG features, a statement in an unusual place (inside rpc/action input or output, a notification, a case, a submodule of an imported module, a grouping used from another module, a nested union, a leaf-list), an extreme or boundary value, an odd but legal layout, or a particular order of statements/files. Ordinary modules (a container with a few leaves, a plain typedef, a single augment) must behave exactly as before.",
    3: "Prefer a change that hides behind an OPTION, a LESS-TRAVELLED ENTRY POINT or a YANG FEATURE that real-world modules use but toy examples do not: the library's ParseOptions (StoreUses, IgnoreSubmoduleCircularDependencies, DeviateOptions.IgnoreDeviateNotSupported), Modules.Read / GetModule / FindModule / AddPath and the search path, yangentry.Parse, the goyang command and its output formats, rarely used accessors; or YANG constructs such as yang-version 1.1 features (action, notification inside containers, anydata, several bases per identity), several revision statements, ordered-by, min/max-elements, presence, status, when/must, if-feature, extension statements, leaf-list defaults, bits, decimal64, unions inside unions, deviations with several deviate statements, submodules including submodules. With default options and plain modules everything must behave exactly as before.",
    4: "Prefer a change whose motive is PERFORMANCE or ROBUSTNESS (a cache, a memo, a sync.Pool, an early exit, a fast path, avoiding a copy or an allocation, a size hint, batching) or ERROR HANDLING (an error that is now swallowed, de-duplicated, attached to another node, reported once instead of each time, or turned into a default), and which goes wrong only when a SECOND condition holds as well: a size or count threshold is crossed, a call is repeated, two things share a key, a particular order of insertion or of map iteration occurs, a value sits exactly on a boundary.",
    5: "Prefer a change about ALIASING AND LIFETIME of data: a slice, map or pointer that is now shared between two things that used to own their own (copies of a node, uses of a grouping, revisions of a module, a module and its submodules, two Process runs, the syntax tree and the schema tree), something reused or cached rather than rebuilt, a slice appended to or sorted in place, a reset that clears less than before. It must stay invisible until two holders of the shared thing both change it, or until a second run / second load / second copy comes along.",
    6: "Prefer a change about ORDER AND TIE-BREAKING or about BOUNDARIES: a sort whose comparison ignores a component or is no longer total or stable, first-wins turned into last-wins (or the reverse) where duplicates or equal keys occur, output that now follows map iteration when two keys tie, a loop that starts or stops one element early, a length-vs-capacity, byte-vs-character, signed-vs-unsigned or 32-vs-64-bit slip, a limit checked with < instead of <=. It must need equal keys, a tie, an empty or single-element or maximal collection, or a value exactly on a limit to show.",
    7: "Prefer a change that sits in the code of ONE feature but shows only in COMBINATION with another: a uses inside an augment inside a choice, a deviation of a node that a grouping brought and a third module augmented, an identityref inside a union inside a typedef inside a grouping used from another module, a leaf-list default under a deviated type, an rpc input reached through a submodule of a dated revision, a typedef shadowed in a case of a choice of a list, a leafref path through an augmented node, config inheritance through a uses under an action. Each feature alone, and every pair the existing tests cover, must behave exactly as before.",
    10: "Prefer a change that is a MODERNISATION or TIDY-UP of the kind that arrives in dependency-free clean-up pull requests: a hand-written loop replaced by a call from slices / maps / sort / strings / bytes / strconv / unicode / errors / path/filepath (slices.Sort vs sort.SliceStable, slices.Compact, strings.Cut vs SplitN, strings.Fields vs Split, strings.EqualFold, TrimSpace vs TrimRight, filepath.Base vs path.Base, strconv.ParseInt with another bit size or base, utf8 vs byte indexing), a switch folded into a table, two branches merged because they 'do the same', an early return hoisted, a defer introduced, a nil check dropped or added, a value receiver turned into a pointer receiver or the reverse, a struct copied instead of shared, fmt.Sprintf replaced by concatenation, an error wrapped or joined. The replacement must agree with the old code on every ordinary input and differ on an edge the old code handled deliberately (stability, duplicates, empty strings, a second separator, non-ASCII, a sign, nil vs empty).",
    8: "Prefer a change that leaves the PRIMARY way of observing the property intact and breaks a SECONDARY observation point that the property (see its anchors / observe_at text) also covers: another accessor or field for the same fact (Entry.Path, Entry.Key, ListAttr, DefaultValues vs Default, Type.Default vs HasDefault, NameMap vs ValueMap vs Values/Names, Identities on the module entry vs Identity.Values vs the identityref type, Import.Module, Entry.Uses under StoreUses, Entry.Augments/Augmented, GetErrors vs the return value of Process, FindModuleByNamespace vs Namespace, the returned byte count vs the bytes written, the goyang command's output vs the library result), a second code path to the same result (Read vs Parse, GetModule vs Process+ToEntry, String vs Bytes vs the writer), or the same query asked a second time.",
}

RARE = {}
try:
    RARE = json.load(open("/tmp/rare_funcs.json"))
except Exception:
    pass

KNOWN = "Do NOT deliver any of these, they have been delivered before: Entry.dup copying the child map only when it is non-empty (sharing the Dir of empty nodes); ApplyDeviate looking a deviation path up once per path text; the type dictionary's run counter advancing only when typedefs were added; Namespace() letting the outermost augment win; ReadOnly() stopping at an rpc/action input or notification; an own-prefix shortcut in Entry.Find decided by the tree root's prefix; updateCursor testing the index of the last line break with > 0; a dated file of a longer-named module taken for a candidate; the reset of the byNS namespace memo moved below an early return; an empty Write at a line start setting the line state; sync.Pool for the AST builder's seen-map or for the lexer; a memo of includingModule or of Modules.revisions; a memo of checked posix-pattern expressions; flattening an indenting writer that wraps another indenting writer; Find falling back to the cases of a choice when a step names no child; inPattern cleared when a double-quoted string closes; ClearEntryCache keeping grouping expansions; the second choice fix-up pass run only for modules with waiting augments; deviate replace/add type writing through the shared YangType pointer; the AST builder accepting a second occurrence of a single-valued substatement; a typedef over a built-in name (union, identityref) keeping its type from an earlier Process; the containment test of a range done before its parts are sorted; an imported unknown type reported at the module statement; mergedSubmodule not reset by Process; a cache of directory listings in findInDir; lexUnquoted (or lexQString) advancing the column by bytes instead of characters; indent.String/Bytes trimming a trailing copy of the prefix; Number.Equal or ParseDecimal scaling a mantissa without a sound overflow check; the error sort splitting messages at every colon; newLexer rewriting CR LF; a finished identity value list appended wholesale; Entry.Augment repeating its pass and handing back the counts of the last pass; FixChoice wrapping only some kinds; YangRange.Validate taking over the bounds-in-order check after coalescing; a hand-written comparison of enumerations that takes a missing name for zero; a run of punctuation tokens emitted in one lexer step; a GetModule that skips Process; Modules.Parse skipping a text equal in name, revision and position to a loaded one; Current() not taking the latest of the revision statements."

def main():
    prop, wt, out, angle = sys.argv[1], sys.argv[2], sys.argv[3], int(sys.argv[4])
    if angle == 9:
        ANGLES[9] = "Earlier wrong changes for this property clustered in a few functions. Put YOURS into one of the functions that none of them touched, or make it show through one of them (file:function): " + ", ".join(RARE.get(prop, [])) + ". Read the function, work out which clause of the property it carries, and change it so that ordinary inputs behave exactly as before while a particular shape, sequence or value goes wrong. If none of the listed functions can carry a change that breaks the property while the suite stays green, say so in notes.md and take the function closest to them."
    p = None
    for l in open("/verif/properties.jsonl"):
        j = json.loads(l)
        if j["id"] == prop:
            p = j
    text = json.dumps({k: p[k] for k in ("id", "title", "statement", "quantifier", "why_tests_cant", "anchors")}, indent=1)
    race = ""
    if prop == "C19":
        race = "\nFor this property the demonstration may be run with the race detector: `CGO_ENABLED=1 go test -race ...` works offline here.\n"
    print(f"""You are helping to evaluate a verification effort for the Go library openconfig/goyang (a YANG lexer, parser and schema resolver). Your job is to play the part of a plausible but WRONG code change.

## The property

This is one semantic property that users of the library rely on (JSON, the text is all you get):

```json
{text}
```

## Your task

Work ONLY inside your own scratch git worktree `{wt}` (a checkout of the library; do not touch any other checkout, and never `/repo` or `/verif`). Produce ONE change to the library's non-test source (`pkg/yang/*.go`, `pkg/indent/*.go`, `pkg/yangentry/*.go`, `yang.go`/other root `*.go`; not `*_test.go`, not testdata) such that

1. the library still compiles (`go build ./...`) and the ENTIRE existing test suite still passes, unedited (`go test -count=1 ./...`);
2. the property above is broken by it: there is an input / history / schedule on which the changed code violates the property's statement while the unchanged code satisfies it;
3. it looks like something a maintainer could plausibly write and a reviewer could plausibly wave through (a refactoring, an optimisation, a cache, a "simplification", a bug fix for something else, an off-by-one, a changed comparison, a reordered step) — not sabotage such as `if name == "magic"`;
4. it does NOT show under ordinary use. {ANGLES[angle]}
   A change that any non-trivial module would expose at once is of no use; neither is one that only changes the wording of a message.
5. {KNOWN}
6. do not simply revert one of the recent commits of the checkout (several recent commits start with "fix:"; undoing one is not interesting), and keep the change small (typically 1-25 lines in one or two files).

Then write a demonstration: a Go test file (package `yang` for pkg/yang, `indent` for pkg/indent, `yangentry` for pkg/yangentry; external `_test` packages are fine too) with one or more `Test...` functions whose names start with `TestSeededDemo`, that FAILS with your change and PASSES without it, uses only in-memory texts or temporary directories it creates itself, and is deterministic in its verdict (if the effect is probabilistic, e.g. depends on Go's map iteration order or on a goroutine schedule, repeat inside the test until the chance of a wrong verdict is negligible). The demonstration must test the property's statement (what a user observes), not an internal detail.
{race}
## Environment

No network. In every shell call first run: `export GOFLAGS=-mod=mod GOPROXY=off GOSUMDB=off GOTOOLCHAIN=local`. Go 1.23 is on PATH. `cd {wt}` before building. Do not run `go get` / `go mod tidy`. If `go.sum`/`go.mod` get modified by the tooling, restore them (`git checkout go.mod go.sum`) before you produce the patch.

## Deliverables — write exactly these files into `{out}/`

* `patch.diff` — output of `git diff` in the worktree with ONLY the source change (the demonstration file must not be in it; it must apply with `git apply` to a clean checkout of the same commit);
* `seeded_demo_test.go` — the demonstration (say in notes.md which package directory it belongs in, e.g. `pkg/yang/`);
* `notes.md` — first line `# <one-sentence summary of the change>`; then: what the change is and why it looks innocent; which clause of the property it breaks; exactly what is needed for it to manifest (the input shape / sequence / schedule) and what does NOT trigger it; the commands you ran and their outcomes (suite with the change, demo with and without the change). Finally a section `## Observations on the unchanged code`: if, while reading, you noticed behaviour of the UNCHANGED library that itself seems to violate the property (give the concrete input and what happens), list it there; write "none" otherwise.

Before you finish, verify all of this yourself: (a) with the change, `go build ./... && go test -count=1 ./...` passes; (b) with the change plus the demo file, the demo fails; (c) with the change taken out again the demo passes — take it out with `git diff -- pkg yang.go > /tmp/<your-own-name>.diff; git apply -R /tmp/<your-own-name>.diff` and put it back with `git apply`; do NOT use `git stash` (the stash is shared with other checkouts of this repository and other people are working in those right now); (d) `patch.diff` applies to a clean tree. Leave the worktree clean of the demo file at the end or not, it does not matter; it will be deleted. Your final message should just say where the files are and summarise the change in two sentences.""")

if __name__ == "__main__":
    main()
