#!/bin/sh
# harvest.sh <PROP> <fix-commit> <signature-regex|crash> <slug> <what...>
# Runs the check against the parent of the fix commit (scratch worktree), picks the smallest
# failing case whose signature matches, stores it in the replay tier and records the fixed entry.
set -e
PROP=$1; COMMIT=$2; SIG=$3; SLUG=$4; shift 4; WHAT="$*"
ROOT=$(cd "$(dirname "$0")/.." && pwd)
WT=/tmp/wt-harvest-$$
git -C /repo worktree add -q "$WT" "$COMMIT^"
OUT=/tmp/harvest-$$
mkdir -p "$OUT"
for s in 1 2 3; do
  VERIF_SEED=$s VERIF_REPO="$WT" VERIF_EVIDENCE="$OUT/ev" VERIF_REPLAYS="$OUT/replays" VERIF_CHECKS=${VERIF_CHECKS:-} "$ROOT/check" "$PROP" quick > "$OUT/log-$s" 2>&1 || true
done
BEST=$(python3 - "$OUT/replays" "$SIG" <<'PY'
import json,sys,os,re
d,sig=sys.argv[1:3]
best=None
for f in sorted(os.listdir(d)) if os.path.isdir(d) else []:
    p=os.path.join(d,f)
    try: r=json.load(open(p))
    except Exception: continue
    v=r.get('violations') or []
    s=v[0]['signature'] if v else 'crash'
    if sig=='crash':
        ok = f.startswith('crash-')
    else:
        ok = re.search(sig,s) is not None
    if ok:
        n=len(json.dumps(r['case']))
        if best is None or n<best[0]: best=(n,p)
print(best[1] if best else '')
PY
)
git -C /repo worktree remove --force "$WT"
if [ -z "$BEST" ]; then echo "no case with signature $SIG found on $COMMIT^"; grep -h "^VIOLATED" "$OUT"/log-* | sort | uniq -c | head; rm -rf "$OUT"; exit 1; fi
# confirm it passes on the current tree
if "$ROOT/check" "$PROP" --replay "$BEST" | grep -q "^VIOLATION"; then echo "case still fails on the current tree: $BEST"; exit 1; fi
python3 "$ROOT/tools/ledger.py" fixed "$PROP" "$(git -C /repo rev-parse --short "$COMMIT")" "$BEST" "$SLUG" "$WHAT"
rm -rf "$OUT"
