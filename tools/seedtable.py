#!/usr/bin/env python3
"""Renders the table of seeded changes (seeded/*/meta.json) into DESIGN.md section 9."""
import json, glob, os, re
ROOT = os.path.dirname(os.path.dirname(os.path.abspath(__file__)))
rows = []
for d in sorted(glob.glob(os.path.join(ROOT, "seeded", "*"))):
    mp = os.path.join(d, "meta.json")
    if not os.path.exists(mp):
        continue
    m = json.load(open(mp))
    patch = open(os.path.join(d, "patch.diff")).read()
    files = sorted(set(re.findall(r"^\+\+\+ b/(\S+)", patch, re.M)))
    what = m.get("summary") or ""
    if not what:
        np = os.path.join(d, "notes.md")
        if os.path.exists(np):
            for ln in open(np):
                if ln.startswith("#"):
                    what = re.sub(r"^#+\s*(?:[Cc]\d\d[^:—-]*?(?:change|round)[^:—-]*[:—-]+\s*)?", "", ln).strip()
                    what = re.sub(r"^(?:change \d+\s*[:—-]+\s*)", "", what)
                    break
    det = ", ".join(m.get("detected_by") or []) or "**none**"
    if m.get("obsolete"):
        det = "no longer a breaking change: " + m["obsolete"]
    sigs = []
    for pid in m.get("detected_by") or []:
        sigs += m["checks"][pid]["signatures"][:1]
    first = m.get("first_run_detected_by")
    note = ""
    if first is not None and set(first) != set(m.get("detected_by") or []):
        note = " (first run: %s)" % (", ".join(first) or "none")
    if m.get("note"):
        note += " — " + m["note"]
    rows.append(f"| {os.path.basename(d)} | {m['property']} | {', '.join(f.replace('pkg/yang/','') for f in files)} | {what} | {det}{note} | {'; '.join(sigs)[:110]} |")
table = ["| change | breaks | touches | what it is / what it needs to manifest | caught by (quick tier) | first signature |", "|---|---|---|---|---|---|"] + rows
text = (
    "Each change was written by a fresh sub-agent that saw only the text of one property and its own scratch\n"
    "worktree, and was kept only after `tools/seedtest.py` had confirmed, in a scratch worktree of `/repo`'s HEAD, that\n"
    "the unedited suite passes with it and that its demonstration fails with it and passes without it. `caught by`\n"
    "lists the quick checks that exit 1 against the changed tree (`VERIF_REPO`); '(first run: ...)' says what caught\n"
    "it before the check was strengthened because of a miss.\n\n" + "\n".join(table) + "\n"
)
p = os.path.join(ROOT, "DESIGN.md")
s = open(p).read()
a, b = s.index("<!-- SEEDED-TABLE-BEGIN -->"), s.index("<!-- SEEDED-TABLE-END -->")
s = s[: a + len("<!-- SEEDED-TABLE-BEGIN -->")] + "\n" + text + s[b:]
open(p, "w").write(s)
print(len(rows), "rows")
