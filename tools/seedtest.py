#!/usr/bin/env python3
"""seedtest.py <PROP> <out-dir> <slug> [--checks N] [--also C04,C06]

Confirms a seeded change delivered in <out-dir> (patch.diff + demo *_test.go + notes.md):
  1. applies the patch to a scratch worktree of /repo's HEAD, builds, runs the unedited suite (must pass);
  2. runs the demonstration with the change (must fail) and without it (must pass);
  3. runs ./check <PROP> quick (and the checks in --also) against the changed tree (VERIF_REPO) and records
     whether each raises a VIOLATION;
  4. removes the worktree; if 1-2 hold, stores the change under /verif/seeded/<slug>/ with meta.json.
"""
import json, os, re, shutil, subprocess, sys, tempfile, time

ROOT = os.path.dirname(os.path.dirname(os.path.abspath(__file__)))
ENV = dict(os.environ, GOFLAGS="-mod=mod", GOPROXY="off", GOSUMDB="off", GOTOOLCHAIN="local")


def sh(cmd, cwd=None, env=None, timeout=1800):
    p = subprocess.run(cmd, shell=True, cwd=cwd, env=env or ENV, stdout=subprocess.PIPE, stderr=subprocess.STDOUT, timeout=timeout)
    return p.returncode, p.stdout.decode(errors="replace")


def main():
    prop, out, slug = sys.argv[1:4]
    also, checks = [], None
    args = sys.argv[4:]
    while args:
        a = args.pop(0)
        if a == "--also":
            also = [x for x in args.pop(0).split(",") if x]
        elif a == "--checks":
            checks = args.pop(0)
    patch = os.path.join(out, "patch.diff")
    demos = [f for f in os.listdir(out) if f.endswith("_test.go")]
    if not os.path.exists(patch) or not demos:
        print("missing patch.diff or demo *_test.go in", out)
        return 2
    wt = tempfile.mkdtemp(prefix="seedwt-", dir="/tmp")
    os.rmdir(wt)
    meta = {"property": prop, "slug": slug, "ran": []}
    try:
        rc, o = sh(f"git -C /repo worktree add -q {wt} HEAD")
        assert rc == 0, o
        rc, o = sh(f"git apply {patch}", cwd=wt)
        if rc != 0:
            # the tree has moved on since the change was delivered (fix: commits): carry it over with a
            # three-way merge and continue with the carried-over patch (the delivered one is kept as patch.orig)
            rc3, o3 = sh(f"git apply -3 {patch}", cwd=wt)
            rcu, ou = sh("git diff --name-only --diff-filter=U", cwd=wt)
            if rc3 != 0 or ou.strip():
                print("patch does not apply:", o, o3)
                return 2
            rcd, od = sh("git diff HEAD", cwd=wt)
            orig = os.path.join(out, "patch.orig")
            if not os.path.exists(orig):
                shutil.copy(patch, orig)
            open(patch, "w").write(od)
            sh("git reset -q", cwd=wt)
            meta["ported"] = "the delivered patch (patch.orig) no longer applied after later fix: commits; patch.diff is its three-way merge onto HEAD"
            print("ported with a three-way merge")
        rc, o = sh("go build ./... && go test -count=1 ./...", cwd=wt)
        meta["suite_passes_with_change"] = rc == 0
        meta["ran"].append("go build ./... && go test -count=1 ./...  (with change): exit %d" % rc)
        if rc != 0:
            print("SUITE FAILS with the change:\n", o[-1500:])
            return 3
        # place demos
        names, pkgs = [], set()
        for d in demos:
            src = open(os.path.join(out, d)).read()
            m = re.search(r"^package\s+(\w+)", src, re.M)
            pkg = m.group(1) if m else "yang"
            sub = "pkg/indent" if pkg.startswith("indent") else ("." if pkg == "main" else "pkg/yang")
            shutil.copy(os.path.join(out, d), os.path.join(wt, sub, d))
            pkgs.add(sub)
            names += re.findall(r"^func (Test\w+)\(", src, re.M)
        run = "^(" + "|".join(names) + ")$"
        race = "-race " if prop == "C19" else ""
        genv = dict(ENV, CGO_ENABLED="1") if prop == "C19" else ENV
        cmd = f"go test {race}-count=1 -run '{run}' " + " ".join("./" + p for p in sorted(pkgs))
        rc1, o1 = sh(cmd, cwd=wt, env=genv)
        meta["demo_fails_with_change"] = rc1 != 0
        meta["ran"].append(f"{cmd}  (with change): exit {rc1}")
        # without the change
        rcx, ox = sh(f"git apply -R {patch}", cwd=wt)
        assert rcx == 0, ox
        rc2, o2 = sh(cmd, cwd=wt, env=genv)
        meta["demo_passes_without_change"] = rc2 == 0
        meta["ran"].append(f"{cmd}  (without change): exit {rc2}")
        rcx, ox = sh(f"git apply {patch}", cwd=wt)
        assert rcx == 0, ox
        for d in demos:
            for sub in pkgs:
                p = os.path.join(wt, sub, d)
                if os.path.exists(p):
                    os.remove(p)
        confirmed = meta["demo_fails_with_change"] and meta["demo_passes_without_change"]
        if not confirmed:
            print("demo not confirmed: with change exit %d, without %d" % (rc1, rc2))
            print(o1[-800:], "\n---\n", o2[-800:])
        # our checks against the changed tree
        meta["checks"] = {}
        evd = tempfile.mkdtemp(prefix="seedev-", dir="/tmp")
        for pid in [prop] + also:
            env = dict(ENV, VERIF_REPO=wt, VERIF_EVIDENCE=evd, VERIF_REPLAYS=os.path.join(evd, "replays"))
            if checks:
                env["VERIF_CHECKS"] = checks
            t0 = time.time()
            rc, o = sh(f"{ROOT}/check {pid} quick", env=env, timeout=3600)
            sigs = sorted(set(re.findall(r"signature=(\S+)", o)))
            meta["checks"][pid] = {"exit": rc, "signatures": sigs[:6], "wall_s": round(time.time() - t0, 1)}
            meta["ran"].append(f"VERIF_REPO=<changed tree> ./check {pid} quick: exit {rc} {sigs[:3]}")
            print(f"check {pid}: exit {rc} {sigs[:4]}")
        shutil.rmtree(evd, ignore_errors=True)
        if confirmed:
            dst = os.path.join(ROOT, "seeded", slug)
            os.makedirs(dst, exist_ok=True)
            shutil.copy(patch, os.path.join(dst, "patch.diff"))
            for d in demos:
                shutil.copy(os.path.join(out, d), os.path.join(dst, d))
            if os.path.exists(os.path.join(out, "patch.orig")):
                shutil.copy(os.path.join(out, "patch.orig"), os.path.join(dst, "patch.orig"))
            notes = os.path.join(out, "notes.md")
            if os.path.exists(notes):
                shutil.copy(notes, os.path.join(dst, "notes.md"))
                meta["needs"] = open(notes).read()[:1500]
            meta["breaks"] = prop
            oldp = os.path.join(dst, "meta.json")
            if os.path.exists(oldp):
                old = json.load(open(oldp))
                meta["first_run_detected_by"] = old.get("first_run_detected_by", old.get("detected_by", []))
                for pid, r in old.get("checks", {}).items():
                    meta["checks"].setdefault(pid, r)
                if old.get("summary"):
                    meta["summary"] = old["summary"]
            meta["detected_by"] = sorted(p for p, r in meta["checks"].items() if r["exit"] == 1)
            json.dump(meta, open(os.path.join(dst, "meta.json"), "w"), indent=1)
            print("stored", dst, "detected_by", meta["detected_by"])
        return 0 if confirmed else 4
    finally:
        sh(f"git -C /repo worktree remove --force {wt}")
        shutil.rmtree(wt, ignore_errors=True)
        sh("git -C /repo worktree prune")


if __name__ == "__main__":
    sys.exit(main())
