#!/usr/bin/env python3
"""uncovered.py <merged.cov> [file-substring ...] — prints the source lines of the blocks no generated case reached
(companion of cover.sh; an analysis aid, not a check)."""
import sys, re, collections
cov = sys.argv[1]; subs = sys.argv[2:]
un = collections.defaultdict(list)
for ln in open(cov):
    m = re.match(r'(\S+):(\d+)\.(\d+),(\d+)\.(\d+) (\d+) (\d+)', ln)
    if not m or int(m.group(7)) != 0: continue
    f = m.group(1)
    if subs and not any(s in f for s in subs): continue
    un[f].append((int(m.group(2)), int(m.group(4))))
for f, bl in sorted(un.items()):
    path = f.replace('github.com/openconfig/goyang', '/repo')
    src = open(path).read().split('\n')
    print('==', f)
    for a, b in sorted(bl):
        for i in range(a, min(b, a + 6) + 1):
            print('%5d  %s' % (i, src[i - 1]))
        print('      --')
