#!/bin/sh
# seedqueue.sh <slug>...  — confirm deliveries one after the other (seedconfirm.sh), each with the neighbouring checks of its property
ROOT=$(cd "$(dirname "$0")/.." && pwd)
mkdir -p /root/logs
for slug in "$@"; do
  case $(echo "$slug" | cut -c1-3) in
    c01) also=C05 ;; c02) also=C16 ;; c04) also=C06,C07 ;; c05) also=C11 ;; c06) also=C04,C08 ;; c07) also=C04,C12 ;;
    c08) also=C06 ;; c09) also=C13,C18 ;; c10) also=C15 ;; c11) also=C05,C18 ;; c12) also=C04,C06 ;; c13) also=C05 ;;
    c15) also=C10 ;; c16) also=C02 ;; c17) also=C13 ;; c18) also=C13 ;; *) also= ;;
  esac
  "$ROOT/tools/seedconfirm.sh" "$slug" "$also" > /root/logs/sc-$slug.log 2>&1
  echo "$slug: $(grep -E '^stored|demo not|SUITE|patch does|missing' /root/logs/sc-$slug.log | tail -1)" >> /root/logs/seedqueue.log
done
