#!/usr/bin/env python3
"""Regenerates /verif/MANIFEST.json from the table below and validates it."""
import json, os, sys
ROOT = os.path.dirname(os.path.dirname(os.path.abspath(__file__)))

CHECKS = {
 "C20": dict(
  category="fault_enumeration",
  technique="exhaustive small-scope enumeration + rapid random generation against a byte-provenance reference model, with injected short writes",
  text="Every text over {a,LF} up to a length bound x three prefixes x every chunking x every stop point of the underlying writer is enumerated and compared byte for byte and count for count with a provenance-tagged reference; rapid adds long texts with multi-byte runes, empty calls and arbitrary prefixes. Exhaustive within the bound, sampled beyond it; this is the right level because the writer's state is one flag, so small scopes cover its transitions.",
  note="Trusts the harness reference (prefix at the start of each line) and that the underlying writer obeys io.Writer; behaviour after the first failed Write is not judged.",
  design="DESIGN.md section 4, C20"),
}

CHECKS["C15"] = dict(
  category="exploration",
  technique="boundary-grid enumeration (all numbers, all same-kind ordered pairs, literal grid) + rapid random generation against math/big exact arithmetic",
  text="Every number of a boundary grid (10^k, 2^31, 2^32, 2^63, 2^64 neighbourhoods x sign x fraction-digits 0..18) is printed, parsed back, converted and compared pairwise (all ordered pairs incl. mixed fraction digits in the thorough tier) against big-integer arithmetic; literals with 0..20 and 254..513 fraction digits around the 64-bit limits go through ParseInt/ParseDecimal and through module text. The grid is complete for the overflow and precision boundaries; values between grid points are sampled by rapid.",
  note="Trusts math/big. Mixed integer/decimal comparison, FromFloat and non-decimal literals are outside the claim; a literal whose excess fraction digits are all zero may be accepted or rejected.",
  design="DESIGN.md section 4, C15")

CHECKS["C14"] = dict(
  category="exploration",
  technique="exhaustive small-scope enumeration of member sequences + rapid random sequences against an RFC 7950 numbering fold (reference model), via the Go API and via module text",
  text="All member sequences up to length 3 (quick) / 4 (thorough) over a 15-value boundary grid and all duplicate-name patterns are pushed through NewEnumType/NewBitfield Set/SetNext and through module text + Process, and compared with a big-integer fold of RFC 7950 9.6.4.2/9.7.4.2 (assignment, acceptance, rejection at the right member, inverse and sorted views). Numbering state is (highest so far, used names, used values), which short sequences over boundary values cover; longer sequences are sampled by rapid.",
  note="Trusts the harness fold. A bits type repeating a position may be accepted or rejected (property lists value uniqueness for enums only).",
  design="DESIGN.md section 4, C14")

CHECKS["C10"] = dict(
  category="exploration",
  technique="boundary-grid enumeration + rapid random restriction chains against a big-integer interval-set reference (independent range-string reader), through typedef chains in module text and the ParseRanges API",
  text="For each numeric type, length and decimal64 precision, every 1- and 2-part restriction over the boundary grid and every parent/child pair of single parts is evaluated through module text (typedef chains, Entry.Type.Range/Length) and through ParseRangesInt/Decimal, then compared with interval-set arithmetic in math/big: must-reject (syntax, lo>hi, widening), must-accept (ascending disjoint within parent), and on acceptance set equality, sortedness, coalescing, fraction-digits and narrowing at every link. rapid adds chains up to depth 4 with up to 5 parts relative to the current parent set. Boundary-complete for the integer extremes; interior values sampled.",
  note="Trusts the harness range reader and math/big. Overlapping/descending parts may be accepted or rejected; hex/octal/+/-0 literals and over-precise decimals are not judged.",
  design="DESIGN.md section 4, C10")

CHECKS["C02"] = dict(
  category="exploration",
  technique="differential testing against an independent RFC 7950 section 6 reader: exhaustive enumeration of short texts over a 16-fragment alphabet + rapid grammar-directed layout generation with mutation; native Go fuzzing in the thorough tier",
  text="yang.Parse is compared with a second, table-free reader of RFC 7950 section 6 written in the harness (acceptance; keywords, argument presence, exact argument strings, nesting, order; nil statements and non-empty error on rejection) on every text of up to 6 (quick) / 7 (thorough) fragments over {a, pattern, SP, LF, TAB, CR, ; { } quote apostrophe backslash + / * n}, and on printed statement forests with hostile arguments under random layout (all quoting styles, concatenation, multi-line indentation with tabs, comments, CRLF, no optional whitespace), partly mutated. Printed texts carry their intended forest, which cross-checks the reference reader itself. Exhaustive for the short-token interplay; layouts beyond that are sampled.",
  note="Trusts the harness reader (cross-checked against the printer's intent on every printed text). The four constructs the property excludes and invalid UTF-8 are counted, not judged.",
  design="DESIGN.md section 4, C02")

CHECKS["C16"] = dict(
  category="exploration",
  technique="differential testing of positions against an independent position-tracking RFC 7950 reader: exhaustive short texts + rapid layout generation with single lexical/syntactic fault injection, and generated valid modules with one injected semantic fault",
  text="Statement.Location() of every statement of every accepted text, and the position in the first error line of every rejected text whose first fault is of a listed kind, are compared with positions computed by the harness's own reader (1-based line, character column) on all texts of up to 5/6 fragments over a 16-fragment alphabet and on printed forests with tabs, multi-byte characters, comments, multi-line strings and CRLF. For semantic faults a small valid-module generator (module + included submodule) plants exactly one fault of each listed kind; every file:line:col in every returned error must be a statement start of that file and an error must lead with the culprit statement, whose position the printer recorded. The unfaulted set must load cleanly for a case to be judged.",
  note="Trusts the harness reader and printer (cross-checked against each other). End-of-input reports, cascades after the first line, faults goyang does not report at all or reports without a position are counted, not judged. One open finding (cross-kind module field position) is listed in known_findings.json.",
  design="DESIGN.md section 4, C16")

CHECKS["C03"] = dict(
  category="exploration",
  technique="rapid grammar-directed generation of statement trees (steered by a reflection-derived keyword table, then perturbed) with a reflection-walk mirror oracle against an independently parsed statement tree; native Go fuzzing in the thorough tier",
  text="Statement trees rooted at module/submodule are grown along the keyword table that reflection reads from goyang's AST structs, perturbed (foreign/unknown/meta-name keywords, duplicated or removed children, prefixed extensions at every level, extra top-level statements), printed and given to Modules.Parse. The oracle is a function of the text alone: error or, if accepted, a one-to-one mirror of an independent yang.Parse of the same text (back-reference structurally the statement incl. position and subtree, name, parent link, field of the keyword, source order, extensions list, equal counts), pinned mandatory substatements present, only (sub)modules at top level, no panic. Sampling, not exhaustive: the space of trees is unbounded; the generator reaches every keyword and every perturbation class (counted).",
  note="Trusts yang.Parse for the statement tree (decided separately by C02) and Go reflection. Acceptance of valid trees is not demanded.",
  design="DESIGN.md section 4, C03")

CHECKS["C04"] = dict(
  category="exploration",
  technique="rapid model-based generation of valid-by-construction module sets (schema model + reference binder) with an invariant walk over all resulting trees, plus planted late/hidden problems that must surface as errors",
  text="Module sets are generated from a typed schema model (imports, submodules with nested includes, typedefs/groupings at all scopes, nested cross-module uses, choices, rpc/action/notification) in model or permuted load order. When Process() is clean every module tree is walked over Dir and RPC input/output and the structural invariants of the property are asserted (key=name, parent link incl. input/output, no *Entry met twice, kind/child-map/list-attribute/type consistency, choice children are cases, no leftover augment, no recorded error, GetErrors() empty); sets with a planted problem that only shows late or in a place the collectors might not visit (below rpc input/output; on a node that a deviation of the same module removes afterwards) must not process cleanly; a fifth of the sets also hold submodules that no module includes. Sampling over an unbounded space; the evidence reports how many cases had nodes that went through >= 2 copy/merge steps.",
  note="Trusts the schema model's own expansion only for the non-triviality rule and for deciding that a planted problem is a problem. Submodule trees are walked but not part of the sharing clause.",
  design="DESIGN.md section 4, C04")
CHECKS["C09"] = dict(
  category="exploration",
  technique="rapid model-based generation with a reference model: independent lexical binder and type folding over the schema model compared with every resolved Entry.Type; planted unknown/unresolvable/cyclic references",
  text="Schemas with typedefs at all ten scope kinds drawn from a three-name pool (heavy shadowing), chained with restrictions across modules and submodules and referenced through arbitrary prefix choices are generated valid by construction; each typedef carries a unique units mark. A reference implementation of lexical binding and chain folding (nearest definition wins; patterns accumulate; ranges/lengths as big-integer sets) predicts kind, name, units, default, fraction-digits, patterns, enum/bit maps, path, union members, range/length and DefaultValues() of every leaf, compared after the whole set is processed (exposes aliasing). Valid sets must not be rejected by type resolution; planted unknown names, unknown prefixes and cycles of length 1-3 must produce an error (a stack overflow kills the worker and is attributed to the case by the driver).",
  note="Trusts the harness binder/folder (yref) and numref. References from inside a submodule to its parent's or a non-included sibling's typedefs, and enum/bit subset re-listing, are not generated.",
  design="DESIGN.md section 4, C09")

CHECKS["C06"] = dict(
  category="exploration",
  technique="rapid model-based generation with a reference expansion of uses (lexical binding in the defining scope, namespace of the user) plus a metamorphic second stage: augment or deviate one instance and require every other instance, and a fresh use, to stay equal to the reference",
  text="Schemas with groupings at every scope, nested and cross-module uses and same-named definitions in both modules are generated valid by construction; the tree below every using node must equal the reference expansion in names, kinds, folded types (unique units marks make a wrong binding visible), defaults, constraints, nesting and namespace. In half of the cases a second stage adds augments into, or a deviating module with deviations inside, one instance and uses the groupings afresh; the complete trees must again equal the reference, which changes only the targeted instance, and no *Entry may be met twice. Sampling; the evidence counts how many cases had a grouping used twice, nested uses and cross-module uses.",
  note="Trusts yref (binder, expander, deviation application). refine and uses-augment are outside the claim and not generated.",
  design="DESIGN.md section 4, C06")
CHECKS["C07"] = dict(
  category="exploration",
  technique="rapid model-based generation of augment sets with a reference graft computed to a fixpoint (order-free by construction), compared in several load orders; planted inapplicable augments must be reported",
  text="1-6 augments over up to 3 modules and their submodules (targets in own and imported modules, created by uses, submodule content or other augments, inside choice/case/rpc input and output written or not/notification; statement order shuffled) are loaded in model order and two random load orders; every module tree must equal the reference graft with the augmenting module's namespace on grafted nodes and descendants. A quarter of the cases plant a missing target, a leaf/leaf-list target, a name the target already has, or two augments (two modules) adding one name; these must yield an error and no panic.",
  note="Trusts yref's graft. Implicit cases (and anything below) as targets, unwritten action input/output, anydata/anyxml/rpc nodes as targets, wrong step prefixes and uses-augment are outside the claim and not generated.",
  design="DESIGN.md section 4, C07")
CHECKS["C08"] = dict(
  category="exploration",
  technique="rapid model-based generation of applicable deviation sequences with a reference application of RFC 7950 7.20.3 in written order; whole-tree comparison doubles as the frame condition; repeated runs expose map-order dependence; planted inapplicable deviations must be reported",
  text="A base set plus 1-2 deviating modules with 1-5 deviations of 1-3 deviate statements each, every statement drawn to be applicable to the node as the previous ones left it, over all kinds and listed properties, both not-supported options, permuted load order, each case run 6 times in fresh module sets. Every module tree must equal the reference (targets changed exactly as written, everything else untouched); one inapplicable deviation of each listed class is planted in a quarter of the cases and must produce an error.",
  note="Trusts yref's deviation application. must/unique, delete default on leaf-lists, add-existing/replace-absent of config/mandatory/units, delete of default-valued bounds and two modules deviating one property are outside the claim and not generated.",
  design="DESIGN.md section 4, C08")
CHECKS["C12"] = dict(
  category="exploration",
  technique="rapid model-based generation with reference attribute computation (nearest explicit config / output; instantiating module) over the expanded model, compared on every node",
  text="Schemas with explicit config at random depths (valid combinations only), uses across modules and submodules, augments into config-false subtrees/choices/rpc input and output and at or below the implicit cases of leaf members, submodule content and operations; for every node of every module tree ReadOnly(), Namespace().Name and InstantiatingModule() must equal the reference. Sampling over an unbounded space with class counters for explicit config, copied nodes, submodule content and rpc output.",
  note="Trusts yref. The namespace of implicit case nodes is not judged (config and read-only are); the implicit case of a container or list member is not used as an augment target; config below operations is not generated.",
  design="DESIGN.md section 4, C12")

CHECKS["C11"] = dict(
  category="exploration",
  technique="rapid generation of identity derivation graphs over several modules with a reference transitive closure; repeated runs and load-order permutations as a metamorphic relation for the fixed-order clause; planted undefined bases and cycles",
  text="Random derivation DAGs (up to 10 identities from a five-name pool, multiple bases, diamonds, cross-module edges through arbitrary prefixes, submodules) with identityref leaves and typedefs are loaded in three load orders, six times each. Values of every identity must equal, as a set of (module, name), the reference closure, contain no duplicate and not the identity itself, and be the same ordered list in every run and order; identityref types must point at the very identity object. Planted undefined local/remote bases, unknown prefixes and cycles of length 1-3 must give an error (a stack overflow kills the worker and is attributed by the driver).",
  note="Trusts yref.IdentityClosure. Order dependence is only seen if the runtime iterates a map differently in one of the 18 runs of a case (probability per tie and run about 1/8 with Go 1.23 maps).",
  design="DESIGN.md section 4, C11")

CHECKS["C17"] = dict(
  category="exploration",
  technique="rapid model-based generation of processed trees; near-exhaustive enumeration of (start, target) pairs per case with pointer-identity oracle from an independent tree walk; seeded negative path mutations",
  text="On every generated processed tree set (uses, submodules, augments incl. unwritten rpc input/output, implicit cases, operations) the absolute prefixed path of every node every start module can name is looked up from every module root and a seeded quarter of the inner nodes written in that module, plus the relative '..' spelling inside one tree; the result must be pointer-identical with the node reached by walking Dir/RPC by names. For a third of the pairs one step is replaced by a non-existent name (first/middle/last, below rpc, below input/output) and the lookup must return nil.",
  note="Trusts the schema model for node names and prefixes and the harness walk. Copies made by uses/augment are not used as start nodes; unwritten action input/output is not a target.",
  design="DESIGN.md section 4, C17")
CHECKS["C18"] = dict(
  category="exploration",
  technique="rapid-generated operation histories (stateful model-based testing) against a batch-run reference: after every process the result must equal a fresh module set loaded with exactly the accepted texts",
  text="Histories of load(good), load(bad: syntax error, module or submodule rejected after an inner typedef was built, duplicate), process and read operations over one Modules are generated with a pool of mutually consistent texts loaded in random order (imports/includes often missing at first). The model is the list of accepted texts; after every process the error list and the complete dump (all module and submodule trees with types, attributes, identity lists) must equal those of a fresh set with the same texts processed once, consecutive runs must agree and every bad load must return an error. A quarter of the bad texts and, in pools without a second revision of any module, a part of the good ones are read with Modules.Read from a directory that holds files of every pool text (the search path is then part of what a failed load must leave alone); Modules.GetModule is an operation of its own, compared with the same call on a fresh set. Histories whose batch run itself crashes are left to C01.",
  note="Trusts only equality of two runs of the code under test (metamorphic/differential oracle) and the canonical dump. Multi-module texts are not used; revisions appear in a dedicated family of 2-3 revisions with importers of many shapes; reads respect the documented 'Process first' precondition.",
  design="DESIGN.md section 4, C18")

CHECKS["C13"] = dict(
  category="exploration",
  technique="five rapid generators with reference models: module headers x all load permutations (revision binding), generated directory layouts in temporary directories (file chooser model), revisions partly loaded and partly on the search path with dated and undated importers (binding invariants), revisions of a module over revisions of a submodule, and a metamorphic split of a module into submodules that must not change the result",
  text="(a) 1-5 module headers over two names and four dates with importers are loaded in every permutation (<= 24; 12 sampled for five texts): acceptance per (name, latest revision), the bare key, dated keys and import bindings must follow the model in every order. (b) Up to seven candidate and near-miss files in 1-3 search-path directories, each declaring the wanted module with a namespace that names its own path, fetched by Read, import and dated import: the chosen file must be the model's (first directory with a candidate, exact name else latest date, never a near miss, failure when none). (e) Revisions of one module partly loaded, partly waiting as files on the search path, with 1-3 dated and undated importers in three load orders: after one Process the bare name and undated imports denote the latest revision held, dated imports their revision when held, and each importer sees one revision. (d) 1-3 revisions of a module each including a submodule by name or by date, 1-2 submodule texts, nested includes: every revision holds exactly what its includes denote. (c) A generated module and a random partition of its body into 1-3 submodules with the includes its references need (mutual includes with the ignore-circular option): tree, types, attributes and identity lists must equal those of the unsplit module.",
  note="Trusts the small reference models in the check and canon's dump. Below a dir/... entry all true candidates lie in one directory (the order in which sub-directories are asked is not modelled); in a fifth of the file cases the first directory is the current directory of the process instead of a search-path entry; dates need not be calendar days; temporary directories live below the run's output directory and are removed per case.",
  design="DESIGN.md section 4, C13")
CHECKS["C19"] = dict(
  category="exploration",
  technique="stress under the Go race detector with rapid-generated module sets and query scripts, each case in a child process so that a race report is attributed; results compared with a sequential run (differential)",
  text="Each case runs in a child process of the -race test binary with GOMAXPROCS=8: either 8-16 barrier-released goroutines each running the full load-process-dump pipeline on its own generated module set (3 rounds), or 8-16 readers issuing the same 60 generated read-only queries (path lookups start at module roots and at inner nodes, including nodes written in submodules) in individually shuffled orders against one freshly processed set, the first query of each being a first-time instantiating-module lookup and the second, where the set has one, a lookup of a node below the written input or output of an rpc or action whose other half may be unwritten (4 rounds). Any race report on the child's output, any panic and any result that differs from the sequential run of the same work is a violation. The family does not own the scheduler: what is decided is the absence of unsynchronised conflicting accesses on the exercised paths and of result-changing interference during the stress, not all interleavings.",
  note="Trusts the Go race detector. Queries never name an rpc input/output node itself nor unresolvable prefixes (those lookups may write by design); nodes below an existing input or output are looked up.",
  design="DESIGN.md section 4, C19")

CHECKS["C05"] = dict(
  category="exploration",
  technique="metamorphic testing: rapid-generated module sets with ties, conflicts and planted faults are run repeatedly and in permuted load orders in fresh module sets (and through the goyang command), all results must be identical; invariant check on every returned error list",
  text="Module sets biased toward ties and conflicts (equal identity names under one base, several deviate statements, two deviating modules, chained augments, 1-3 planted faults spread over files, mirror-image modules handed over under one source name) are loaded in every permutation (<= 3 sources) or model order plus 7 random orders, 4 times each in fresh module sets inside one process; load errors, the Process() error strings in order and the complete canonical dump must be identical in all runs, error lists ordered by file/line/column without duplicates. A sixteenth of the sets are handed over without any source name (positions then read 'line L:C'). A twelfth of the cases also run the goyang binary built from the working tree 6 times per format (tree, types) with two argument orders, and with --path over a directory tree that holds every imported text in a sub-directory of its own, and compare exit status, stdout and stderr byte for byte.",
  note="No reference model: the oracle is equality between runs of the code under test. Order dependence is observed only if the Go runtime iterates a map differently in one of the 24-32 runs of a case (about 1/8 per range for a two-entry map with Go 1.23), so a single tie can stay unseen in one case with probability of a few percent; features recur over hundreds of cases.",
  design="DESIGN.md section 4, C05")

CHECKS["C01"] = dict(
  category="exploration",
  technique="rapid generation of hostile module sets (mutated valid sets from the schema model, keyword soup over the whole vocabulary, parametrised cycle/absence/degenerate templates) through a fixed load-process-read-reprocess script, with panic capture, worker-death attribution by the driver and a per-case watchdog; native Go fuzzing over bytes in the thorough tier",
  text="Every case (up to 4 texts and an option triple) runs the full script: generic parse, load, Process, read-back of every tree and accessor incl. path lookups with mangled and wrongly prefixed paths, Process again, read-back again. A panic is caught and attributed to the innermost goyang frame; a fatal runtime error (stack overflow) kills the worker, whose case in flight the driver re-runs in a fresh process to confirm; a case exceeding 60 s is a hang. Three generators aim at the known crash surfaces: statement-level mutations of valid sets, any-keyword-under-any-keyword soup, and templates for reference cycles of length 1-4 over typedef/uses/identity/include/import at every scope and across modules, absent modules and prefixes, lone submodules, bad augment and deviation targets, duplicates, hostile numbers, degenerate types. Absence of crashes is sampled, never established.",
  note="Inputs up to 64 KiB; 'bounded time' is decided as 'well under 60 s'. Recursion proportional to brace nesting is bounded by input size.",
  design="DESIGN.md section 4, C01")

PENDING = {}

def main():
    props = [json.loads(l) for l in open(os.path.join(ROOT, "properties.jsonl"))]
    checks, na = [], []
    for p in props:
        pid = p["id"]
        c = CHECKS.get(pid)
        if c is None or not os.path.isdir(os.path.join(ROOT, "harness", "props", pid.lower())):
            na.append({"property_id": pid, "reason": PENDING.get(pid, "check not built yet in this session (planned in DESIGN.md section 4); not claimed until its check runs clean")})
            continue
        checks.append({
            "property_id": pid,
            "quick_cmd": f"./check {pid} quick",
            "thorough_cmd": f"./check {pid} thorough",
            "evidence_file": f"/verif/evidence/{pid}.json",
            "replay_cmd_template": f"./check {pid} --replay {{path}}",
            "engine": "vrun",
            "level_claimed": {"category": c["category"], "text": c["text"], "design_ref": c["design"]},
            "level_note": c["note"],
            "technique": c["technique"],
        })
    m = {
        "version": 1,
        "setup_cmd": "./setup.sh",
        "hooks": {
            "guard": "verif",
            "enable": "checks compile with -tags verif; no source hook is needed, every observation goes through goyang's exported API",
            "baseline_off_cmd": "cd /repo && go test -vet=off -count=1 ./...",
            "source_commits": [],
            "add_only": True,
        },
        "engines": [{
            "name": "vrun",
            "path": "/verif/harness/cmd/vrun",
            "serves_properties": [c["property_id"] for c in checks],
            "kind_free_text": "Go driver: builds props/<id> test binary against /repo's working tree, runs it as seeded shard processes (rapid v1.3.0 generators + exhaustive enumerations + corpus replay, native go fuzzing in thorough tiers), attributes worker deaths, merges evidence",
        }],
        "checks": checks,
        "not_applicable": na,
        "notes": "Technique family: property-based testing and fuzzing. known_findings.json is the ledger of open findings and fixed defects; DESIGN.md explains every oracle.",
    }
    out = os.path.join(ROOT, "MANIFEST.json")
    json.dump(m, open(out, "w"), indent=1)
    try:
        import jsonschema
        jsonschema.validate(m, json.load(open("/root/.vp/MANIFEST.schema.json")))
        print("MANIFEST.json valid;", len(checks), "checks,", len(na), "not claimed")
    except ImportError:
        print("written (jsonschema not available to validate)")

if __name__ == "__main__":
    main()
