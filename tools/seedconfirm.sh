#!/bin/sh
# seedconfirm.sh <slug> [also-list]   — confirm the delivery in /tmp/so-<slug> with seedtest.py (own build directory, so that
# several confirmations and ordinary check runs do not share binaries), then remove the agent's worktree /tmp/sw-<slug>.
slug=$1; also=$2
ROOT=$(cd "$(dirname "$0")/.." && pwd)
P=$(echo "$slug" | cut -c1-3 | tr c C)
export VERIF_BUILD=/tmp/sb-$slug
mkdir -p "$VERIF_BUILD"
if [ -n "$also" ]; then python3 "$ROOT/tools/seedtest.py" "$P" /tmp/so-$slug "$slug" --also "$also"; else python3 "$ROOT/tools/seedtest.py" "$P" /tmp/so-$slug "$slug"; fi
rc=$?
rm -rf "$VERIF_BUILD"
git -C /repo worktree remove --force /tmp/sw-$slug 2>/dev/null
git -C /repo worktree prune
exit $rc
