// vrun is the driver behind /verif/check: it builds the test binary of one
// property against the repository's current working tree, runs it as shard
// processes, attributes worker deaths to cases, merges the partial evidence
// and maps everything to the exit codes of the interface
// (0 held, 1 violation, 2 cannot decide).
package main

import (
	"bufio"
	"bytes"
	"context"
	"crypto/sha256"
	"encoding/binary"
	"encoding/json"
	"fmt"
	"os"
	"os/exec"
	"path/filepath"
	"regexp"
	"runtime"
	"sort"
	"strconv"
	"strings"
	"sync"
	"syscall"
	"time"
)

type tierCfg struct {
	Checks   int           // random cases in total (split over the shards)
	Shards   int           // 0 = number of CPUs (max 16)
	Timeout  time.Duration // whole tier
	FuzzTime time.Duration // per native fuzz target (thorough only)
}

type propCfg struct {
	Race    bool
	Quick   tierCfg
	Thor    tierCfg
	Fuzz    []string // native fuzz targets (thorough tier)
	NeedCLI bool     // build the goyang command and pass its path
}

var props = map[string]propCfg{}

func reg(id string, c propCfg) { props[id] = c }

func init() {
	m := time.Minute
	reg("C01", propCfg{Quick: tierCfg{Checks: 40000, Timeout: 8 * m}, Thor: tierCfg{Checks: 3000000, Timeout: 90 * m, FuzzTime: 4 * m}, Fuzz: []string{"FuzzLoad"}})
	reg("C02", propCfg{Quick: tierCfg{Checks: 200000, Timeout: 8 * m}, Thor: tierCfg{Checks: 30000000, Timeout: 90 * m, FuzzTime: 3 * m}, Fuzz: []string{"FuzzParse"}})
	reg("C03", propCfg{Quick: tierCfg{Checks: 200000, Timeout: 8 * m}, Thor: tierCfg{Checks: 10000000, Timeout: 90 * m, FuzzTime: 3 * m}, Fuzz: []string{"FuzzBuild"}})
	reg("C04", propCfg{Quick: tierCfg{Checks: 30000, Timeout: 8 * m}, Thor: tierCfg{Checks: 2500000, Timeout: 90 * m}})
	reg("C05", propCfg{NeedCLI: true, Quick: tierCfg{Checks: 9000, Timeout: 8 * m}, Thor: tierCfg{Checks: 200000, Timeout: 90 * m}})
	reg("C06", propCfg{Quick: tierCfg{Checks: 25000, Timeout: 8 * m}, Thor: tierCfg{Checks: 2000000, Timeout: 90 * m}})
	reg("C07", propCfg{Quick: tierCfg{Checks: 15000, Timeout: 8 * m}, Thor: tierCfg{Checks: 1000000, Timeout: 90 * m}})
	reg("C08", propCfg{Quick: tierCfg{Checks: 16000, Timeout: 8 * m}, Thor: tierCfg{Checks: 800000, Timeout: 90 * m}})
	reg("C09", propCfg{Quick: tierCfg{Checks: 30000, Timeout: 8 * m}, Thor: tierCfg{Checks: 2000000, Timeout: 90 * m}})
	reg("C10", propCfg{Quick: tierCfg{Checks: 200000, Timeout: 8 * m}, Thor: tierCfg{Checks: 30000000, Timeout: 90 * m}})
	reg("C11", propCfg{Quick: tierCfg{Checks: 12000, Timeout: 8 * m}, Thor: tierCfg{Checks: 600000, Timeout: 90 * m}})
	reg("C12", propCfg{Quick: tierCfg{Checks: 30000, Timeout: 8 * m}, Thor: tierCfg{Checks: 2000000, Timeout: 90 * m}})
	reg("C13", propCfg{Quick: tierCfg{Checks: 20000, Timeout: 8 * m}, Thor: tierCfg{Checks: 300000, Timeout: 90 * m}})
	reg("C14", propCfg{Quick: tierCfg{Checks: 100000, Timeout: 8 * m}, Thor: tierCfg{Checks: 20000000, Timeout: 90 * m}})
	reg("C15", propCfg{Quick: tierCfg{Checks: 100000, Timeout: 8 * m}, Thor: tierCfg{Checks: 50000000, Timeout: 90 * m}})
	reg("C16", propCfg{Quick: tierCfg{Checks: 100000, Timeout: 8 * m}, Thor: tierCfg{Checks: 10000000, Timeout: 90 * m}})
	reg("C17", propCfg{Quick: tierCfg{Checks: 20000, Timeout: 8 * m}, Thor: tierCfg{Checks: 1000000, Timeout: 90 * m}})
	reg("C18", propCfg{Quick: tierCfg{Checks: 30000, Timeout: 8 * m}, Thor: tierCfg{Checks: 1000000, Timeout: 90 * m}})
	reg("C19", propCfg{Race: true, Quick: tierCfg{Checks: 160, Shards: 4, Timeout: 8 * m}, Thor: tierCfg{Checks: 6000, Shards: 4, Timeout: 90 * m}})
	reg("C20", propCfg{Quick: tierCfg{Checks: 400000, Timeout: 8 * m}, Thor: tierCfg{Checks: 12000000, Timeout: 90 * m}})
}

func getenv(k, d string) string {
	if v := os.Getenv(k); v != "" {
		return v
	}
	return d
}

var (
	root     = getenv("VERIF_ROOT", "/verif")
	repo     = getenv("VERIF_REPO", "/repo")
	buildDir string
	goEnv    []string
)

func die2(format string, args ...any) {
	fmt.Printf("CANNOT-DECIDE: "+format+"\n", args...)
	os.Exit(2)
}

func main() {
	if len(os.Args) < 3 {
		fmt.Println("usage: vrun <ID> quick|thorough | vrun <ID> --replay <file>")
		os.Exit(2)
	}
	id := strings.ToUpper(os.Args[1])
	cfg, ok := props[id]
	if !ok {
		die2("unknown property %s", id)
	}
	lid := strings.ToLower(id)
	if _, err := os.Stat(filepath.Join(root, "harness", "props", lid)); err != nil {
		die2("no check for %s", id)
	}
	buildDir = getenv("VERIF_BUILD", filepath.Join(root, ".build"))
	os.MkdirAll(buildDir, 0o755)
	goEnv = append(os.Environ(), "GOFLAGS=-mod=mod", "GOPROXY=off", "GOSUMDB=off", "GOTOOLCHAIN=local", "CGO_ENABLED="+map[bool]string{true: "1", false: "0"}[cfg.Race])

	seed, _ := strconv.ParseInt(getenv("VERIF_SEED", "1"), 10, 64)

	bin, modfile := build(id, cfg)

	if os.Args[2] == "--replay" {
		if len(os.Args) < 4 {
			die2("--replay needs a file")
		}
		os.Exit(replay(id, bin, os.Args[3], true))
	}
	tier := os.Args[2]
	if tier != "quick" && tier != "thorough" {
		die2("tier must be quick or thorough")
	}
	tc := cfg.Quick
	if tier == "thorough" {
		tc = cfg.Thor
	}
	if v := os.Getenv("VERIF_CHECKS"); v != "" {
		tc.Checks, _ = strconv.Atoi(v)
	}
	if v := os.Getenv("VERIF_FUZZTIME"); v != "" {
		if d, err := time.ParseDuration(v); err == nil {
			tc.FuzzTime = d
		}
	}
	shards := tc.Shards
	if shards == 0 {
		shards = runtime.NumCPU()
		if shards > 16 {
			shards = 16
		}
	}
	if v := os.Getenv("VERIF_SHARDS"); v != "" {
		shards, _ = strconv.Atoi(v)
	}
	cli := ""
	if cfg.NeedCLI {
		cli = buildCLI()
	}

	start := time.Now()
	out, err := os.MkdirTemp(buildDir, "run-"+lid+"-")
	if err != nil {
		die2("%v", err)
	}
	defer os.RemoveAll(out)

	evDir := getenv("VERIF_EVIDENCE", filepath.Join(root, "evidence"))
	os.MkdirAll(evDir, 0o755)
	evFile := filepath.Join(evDir, id+".json")
	os.Remove(evFile)

	ctx, cancel := context.WithTimeout(context.Background(), tc.Timeout)
	defer cancel()

	type shardRes struct {
		out   []byte
		err   error
		state *os.ProcessState
	}
	res := make([]shardRes, shards)
	var wg sync.WaitGroup
	per := (tc.Checks + shards - 1) / shards
	if per < 1 {
		per = 1
	}
	for i := 0; i < shards; i++ {
		wg.Add(1)
		go func(i int) {
			defer wg.Done()
			rs := mix(uint64(seed), uint64(i)) | 1
			cmd := exec.CommandContext(ctx, bin,
				"-test.run=^TestCheck$", "-test.timeout=0", "-test.count=1",
				fmt.Sprintf("-rapid.checks=%d", per), fmt.Sprintf("-rapid.seed=%d", rs), "-rapid.nofailfile", "-rapid.shrinktime=20s")
			cmd.Dir = out
			cmd.Env = append(os.Environ(),
				"VERIF_TIER="+tier, fmt.Sprintf("VERIF_SEED=%d", seed), fmt.Sprintf("VERIF_SHARD=%d", i), fmt.Sprintf("VERIF_SHARDS=%d", shards),
				"VERIF_OUT="+out, "VERIF_ROOT="+root, "VERIF_REPO="+repo, "VERIF_CLI="+cli, "VERIF_SELF="+bin,
				"GORACE=halt_on_error=0 exitcode=66", "GOMAXPROCS="+gomaxprocs(cfg, shards))
			cmd.SysProcAttr = &syscall.SysProcAttr{Setpgid: true}
			cmd.Cancel = func() error { return syscall.Kill(-cmd.Process.Pid, syscall.SIGKILL) }
			var buf bytes.Buffer
			cmd.Stdout = &buf
			cmd.Stderr = &buf
			err := cmd.Run()
			res[i] = shardRes{out: buf.Bytes(), err: err, state: cmd.ProcessState}
		}(i)
	}
	wg.Wait()
	timedOut := ctx.Err() != nil

	// Collect.
	var parts []partial
	violations := map[string]string{} // replay path -> line
	var violOrder, violText []string
	known := map[string]string{}
	infra := []string{}
	for i := 0; i < shards; i++ {
		text := string(res[i].out)
		os.WriteFile(filepath.Join(buildDir, fmt.Sprintf("last-%s-shard-%d.log", lid, i)), res[i].out, 0o644)
		lastSig := ""
		for _, ln := range strings.Split(text, "\n") {
			ln = strings.TrimSpace(ln)
			if strings.HasPrefix(ln, "VIOLATED ") {
				if j := strings.Index(ln, "signature="); j >= 0 {
					lastSig = ln[j:]
				}
			}
			if strings.HasPrefix(ln, "VIOLATION property=") {
				key := lastSig
				if key == "" {
					key = ln
				}
				if _, ok := violations[key]; !ok {
					violations[key] = ln
					violOrder = append(violOrder, ln)
					violText = append(violText, violatedBlock(text, lastSig))
				}
				lastSig = ""
			}
			if strings.HasPrefix(ln, "INFRA:") {
				infra = append(infra, ln)
			}
		}
		pf := filepath.Join(out, fmt.Sprintf("shard-%d.json", i))
		b, err := os.ReadFile(pf)
		if err != nil {
			// the shard did not finish: attribute
			if timedOut {
				continue
			}
			cur := filepath.Join(out, fmt.Sprintf("shard-%d.current", i))
			if cb, err := os.ReadFile(cur); err == nil {
				sum := sha256.Sum256(cb)
				rdir := getenv("VERIF_REPLAYS", filepath.Join(root, "replays", lid))
				os.MkdirAll(rdir, 0o755)
				rp := filepath.Join(rdir, fmt.Sprintf("crash-%x.json", sum[:8]))
				os.WriteFile(rp, cb, 0o644)
				code := replay(id, bin, rp, false)
				switch code {
				case 0:
					infra = append(infra, fmt.Sprintf("shard %d died (%v) and the case in flight does not reproduce it; tail: %s", i, res[i].err, tail(text, 1500)))
					os.Remove(rp)
				case 3:
					// known finding crash: reported by replay
					os.Remove(rp)
					known["(crash)"] = "see above"
				default:
					ln := fmt.Sprintf("VIOLATION property=%s replay=%s", id, rp)
					key := "crash:" + lastCrashSig
					if _, ok := violations[key]; !ok {
						violations[key] = ln
						violOrder = append(violOrder, ln)
					} else {
						os.Remove(rp)
					}
				}
			} else {
				infra = append(infra, fmt.Sprintf("shard %d died (%v) without a case in flight; tail: %s", i, res[i].err, tail(text, 1500)))
			}
			continue
		}
		var p partial
		if err := json.Unmarshal(b, &p); err != nil {
			infra = append(infra, fmt.Sprintf("shard %d: bad partial: %v", i, err))
			continue
		}
		parts = append(parts, p)
		for sig, what := range p.KnownWhat {
			known[sig] = what
		}
		if len(p.Violations) == 0 && res[i].err != nil {
			// test binary failed without a recorded violation (e.g. race report, rapid complaint)
			if strings.Contains(text, "WARNING: DATA RACE") && !strings.Contains(text, "VIOLATION property=") {
				infra = append(infra, fmt.Sprintf("shard %d: race report without violation record", i))
			} else if !strings.Contains(text, "VIOLATION property=") {
				infra = append(infra, fmt.Sprintf("shard %d failed without a violation record: %s", i, tail(text, 1500)))
			}
		}
	}

	// Native fuzz campaigns (thorough tier).
	fuzzExecs := map[string]int64{}
	if tier == "thorough" && len(violations) == 0 && !timedOut && os.Getenv("VERIF_NOFUZZ") == "" {
		for _, target := range cfg.Fuzz {
			n, lines, inf := fuzz(id, lid, target, tc.FuzzTime, modfile, cfg)
			fuzzExecs[target] = n
			for _, ln := range lines {
				if _, ok := violations[ln]; !ok {
					violations[ln] = ln
					violOrder = append(violOrder, ln)
				}
			}
			infra = append(infra, inf...)
		}
	}

	wall := time.Since(start).Seconds()
	if len(parts) > 0 {
		writeEvidence(evFile, id, tier, seed, parts, shards, wall, len(violations), fuzzExecs, timedOut)
	}

	sigs := make([]string, 0, len(known))
	for s := range known {
		sigs = append(sigs, s)
	}
	sort.Strings(sigs)
	for _, s := range sigs {
		if s == "(crash)" {
			continue
		}
		fmt.Printf("KNOWN-FINDING: property=%s %s [%s]\n", id, known[s], s)
	}
	if len(violations) > 0 {
		for _, vt := range violText {
			if vt != "" {
				fmt.Println(vt)
			}
		}
		for _, ln := range violOrder {
			fmt.Println(ln)
		}
		os.Exit(1)
	}
	if timedOut {
		die2("time budget of %v exhausted (inconclusive)", tc.Timeout)
	}
	if len(infra) > 0 {
		for _, s := range infra {
			fmt.Println(s)
		}
		die2("infrastructure trouble in %d place(s)", len(infra))
	}
	if len(parts) != shards {
		die2("only %d of %d shards reported", len(parts), shards)
	}
	fmt.Printf("OK property=%s tier=%s seed=%d wall=%.1fs evidence=%s\n", id, tier, seed, wall, evFile)
}

func gomaxprocs(cfg propCfg, shards int) string {
	if cfg.Race {
		return "8"
	}
	return "2"
}

// violatedBlock returns the VIOLATED line carrying sig and the detail line after it.
func violatedBlock(text, sig string) string {
	if sig == "" {
		return ""
	}
	lines := strings.Split(text, "\n")
	for i, ln := range lines {
		if strings.HasPrefix(strings.TrimSpace(ln), "VIOLATED ") && strings.HasSuffix(strings.TrimSpace(ln), sig) {
			out := strings.TrimSpace(ln)
			if i+1 < len(lines) {
				out += "\n" + trunc(lines[i+1], 1500)
			}
			return out
		}
	}
	return ""
}

func printViolated(text string) {
	sc := bufio.NewScanner(strings.NewReader(text))
	sc.Buffer(make([]byte, 1<<20), 1<<24)
	n := 0
	for sc.Scan() {
		ln := sc.Text()
		if strings.HasPrefix(strings.TrimSpace(ln), "VIOLATED ") {
			fmt.Println(strings.TrimSpace(ln))
			if sc.Scan() {
				fmt.Println(trunc(sc.Text(), 1500))
			}
			n++
			if n >= 4 {
				return
			}
		}
	}
}

func modArgs(modfile string) []string {
	if modfile != "" {
		return []string{"-modfile=" + modfile}
	}
	return nil
}

func trunc(s string, n int) string {
	if len(s) > n {
		return s[:n] + "…"
	}
	return s
}

func tail(s string, n int) string {
	if len(s) > n {
		s = "…" + s[len(s)-n:]
	}
	return strings.ReplaceAll(s, "\n", " | ")
}

func mix(seed, salt uint64) uint64 {
	x := seed*0x9E3779B97F4A7C15 + salt*0xBF58476D1CE4E5B9 + 0x94D049BB133111EB
	x ^= x >> 30
	x *= 0xBF58476D1CE4E5B9
	x ^= x >> 27
	x *= 0x94D049BB133111EB
	x ^= x >> 31
	return x
}

// build compiles the test binary of the property against the repository.
func build(id string, cfg propCfg) (bin, modfile string) {
	lid := strings.ToLower(id)
	h := sha256.Sum256([]byte(repo))
	tag := fmt.Sprintf("%x", h[:4])
	harness := filepath.Join(root, "harness")
	args := []string{"test", "-c", "-tags", "verif", "-vet=off"}
	if repo != "/repo" {
		// alternative module file pointing at a scratch copy of the repository
		src, err := os.ReadFile(filepath.Join(harness, "go.mod"))
		if err != nil {
			die2("%v", err)
		}
		alt := regexp.MustCompile(`(?m)^replace github.com/openconfig/goyang => .*$`).ReplaceAll(src, []byte("replace github.com/openconfig/goyang => "+repo))
		modfile = filepath.Join(buildDir, "go."+tag+".mod")
		os.WriteFile(modfile, alt, 0o644)
		sum, _ := os.ReadFile(filepath.Join(harness, "go.sum"))
		os.WriteFile(filepath.Join(buildDir, "go."+tag+".sum"), sum, 0o644)
		args = append(args, "-modfile="+modfile)
	}
	if cfg.Race {
		args = append(args, "-race")
	}
	bin = filepath.Join(buildDir, lid+"."+tag+".test")
	args = append(args, "-o", bin, "./props/"+lid)
	cmd := exec.Command("go", args...)
	cmd.Dir = harness
	cmd.Env = goEnv
	outb, err := cmd.CombinedOutput()
	if err != nil {
		fmt.Println(string(outb))
		die2("build of the check against %s failed: %v", repo, err)
	}
	return bin, modfile
}

func buildCLI() string {
	h := sha256.Sum256([]byte(repo))
	bin := filepath.Join(buildDir, fmt.Sprintf("goyang.%x", h[:4]))
	cmd := exec.Command("go", "build", "-o", bin, ".")
	cmd.Dir = repo
	env := []string{}
	for _, e := range os.Environ() {
		if !strings.HasPrefix(e, "GOFLAGS=") {
			env = append(env, e)
		}
	}
	cmd.Env = append(env, "GOFLAGS=-mod=readonly", "GOPROXY=off", "GOSUMDB=off", "GOTOOLCHAIN=local", "CGO_ENABLED=0")
	outb, err := cmd.CombinedOutput()
	if err != nil {
		fmt.Println(string(outb))
		die2("build of the goyang command failed: %v", err)
	}
	return bin
}

// replay runs one case in a fresh process. Returns 0 ok, 1 violation,
// 2 infrastructure, 3 only known findings.
func replay(id, bin, file string, verbose bool) int {
	abs, _ := filepath.Abs(file)
	ctx, cancel := context.WithTimeout(context.Background(), 5*time.Minute)
	defer cancel()
	scratch, _ := os.MkdirTemp(buildDir, "replay-")
	defer os.RemoveAll(scratch)
	cmd := exec.CommandContext(ctx, bin, "-test.run=^TestCheck$", "-test.timeout=0", "-test.count=1")
	cmd.Dir = scratch
	cmd.Env = append(os.Environ(), "VERIF_REPLAY="+abs, "VERIF_ROOT="+root, "VERIF_REPO="+repo, "VERIF_SELF="+bin, "VERIF_OUT="+scratch, "GORACE=halt_on_error=0 exitcode=66")
	outb, err := cmd.CombinedOutput()
	text := string(outb)
	if verbose {
		fmt.Print(text)
	}
	if ctx.Err() != nil {
		fmt.Printf("VIOLATED property=%s clause=bounded-time signature=hang/replay\n  the case did not finish within 5 minutes\n", id)
		fmt.Printf("VIOLATION property=%s replay=%s\n", id, abs)
		return 1
	}
	if strings.Contains(text, "VIOLATION property=") {
		if !verbose {
			printViolated(text)
		}
		return 1
	}
	if err == nil {
		if strings.Contains(text, "KNOWN-FINDING:") {
			if !verbose {
				printKnown(text)
			}
			return 3
		}
		return 0
	}
	if strings.Contains(text, "INFRA:") {
		return 2
	}
	// The process died: a fatal error or an unrecovered panic is a crash of the code under test.
	sig := crashSignature(text)
	if what := knownCrash(id, sig); what != "" {
		fmt.Printf("KNOWN-FINDING: property=%s %s [%s]\n", id, what, sig)
		return 3
	}
	lastCrashSig = sig
	if verbose || !seenCrash[sig] {
		seenCrash[sig] = true
		fmt.Printf("VIOLATED property=%s clause=no-crash signature=%s\n  process died replaying the case: %s\n", id, sig, crashHead(text))
	}
	if verbose {
		fmt.Printf("VIOLATION property=%s replay=%s\n", id, abs)
	}
	return 1
}

var (
	seenCrash    = map[string]bool{}
	lastCrashSig string
)

// crashHead extracts the error line and the first goyang frames of a Go crash report.
func crashHead(text string) string {
	var out []string
	lines := strings.Split(text, "\n")
	for i, ln := range lines {
		if strings.HasPrefix(ln, "fatal error:") || strings.HasPrefix(ln, "panic:") || strings.HasPrefix(ln, "runtime: goroutine stack exceeds") {
			out = append(out, strings.TrimSpace(ln))
		}
		if strings.HasPrefix(ln, "github.com/openconfig/goyang") && len(out) < 8 {
			out = append(out, strings.TrimSpace(ln))
			if i+1 < len(lines) {
				out = append(out, strings.TrimSpace(lines[i+1]))
			}
		}
	}
	if len(out) == 0 {
		return tail(text, 600)
	}
	return strings.Join(out, " | ")
}

func printKnown(text string) {
	seen := map[string]bool{}
	for _, ln := range strings.Split(text, "\n") {
		ln = strings.TrimSpace(ln)
		if strings.HasPrefix(ln, "KNOWN-FINDING:") && !seen[ln] {
			seen[ln] = true
			fmt.Println(ln)
		}
	}
}

var frameRE = regexp.MustCompile(`(?m)^github\.com/openconfig/goyang(?:/pkg)?/?([A-Za-z0-9_./()*]+)\(`)

func crashSignature(text string) string {
	kind := "died"
	switch {
	case strings.Contains(text, "stack overflow"):
		kind = "fatal/stack-overflow"
	case strings.Contains(text, "fatal error:"):
		kind = "fatal/other"
	case strings.Contains(text, "panic:"):
		kind = "panic"
	}
	site := "unknown-site"
	if m := frameRE.FindStringSubmatch(text); m != nil {
		site = regexp.MustCompile(`\.func\d+(\.\d+)*$`).ReplaceAllString(m[1], "")
	}
	return kind + "/" + site
}

type ledger struct {
	Open []struct {
		Property  string `json:"property"`
		Signature string `json:"signature"`
		What      string `json:"what"`
	} `json:"open"`
}

func knownCrash(id, sig string) string {
	b, err := os.ReadFile(getenv("VERIF_LEDGER", filepath.Join(root, "known_findings.json")))
	if err != nil {
		return ""
	}
	var l ledger
	if json.Unmarshal(b, &l) != nil {
		return ""
	}
	for _, f := range l.Open {
		if f.Property != id {
			continue
		}
		if re, err := regexp.Compile("^(?:" + f.Signature + ")$"); err == nil && re.MatchString(sig) {
			return f.What
		}
	}
	return ""
}

type partial struct {
	Property     string            `json:"property"`
	Shard        int               `json:"shard"`
	Evaluations  int64             `json:"evaluations"`
	Corpus       int64             `json:"corpus_cases"`
	Enumerated   int64             `json:"enumerated_cases"`
	Random       int64             `json:"random_cases"`
	NonTrivial   int64             `json:"nontrivial_evaluations"`
	EnumComplete bool              `json:"enum_complete"`
	HasEnum      bool              `json:"has_enum"`
	EnumNote     string            `json:"enum_note"`
	Classes      map[string]int64  `json:"classes"`
	OutOfClaim   map[string]int64  `json:"excluded_out_of_claim"`
	Known        map[string]int64  `json:"excluded_known"`
	KnownWhat    map[string]string `json:"known_what"`
	Samples      []any             `json:"samples"`
	Violations   []any             `json:"violations"`
	Extra        map[string]any    `json:"extra"`
	Rule         string            `json:"rule"`
	Level        string            `json:"level"`
	Assumptions  []string          `json:"assumptions"`
	WallS        float64           `json:"wall_s"`
	HashFile     string            `json:"hash_file"`
	HashCapped   bool              `json:"hash_capped"`
}

func writeEvidence(file, id, tier string, seed int64, parts []partial, shards int, wall float64, nviol int, fuzzExecs map[string]int64, timedOut bool) {
	cov := map[string]any{}
	var evals, corpus, enum, random, nt int64
	classes, ooc, known := map[string]int64{}, map[string]int64{}, map[string]int64{}
	var hashList []uint64
	capped := false
	var samples []any
	enumComplete, hasEnum := true, false
	extra := map[string]any{}
	sort.Slice(parts, func(i, j int) bool { return parts[i].Shard < parts[j].Shard })
	for _, p := range parts {
		evals += p.Evaluations
		corpus += p.Corpus
		enum += p.Enumerated
		random += p.Random
		nt += p.NonTrivial
		for k, v := range p.Classes {
			classes[k] += v
		}
		for k, v := range p.OutOfClaim {
			ooc[k] += v
		}
		for k, v := range p.Known {
			known[k] += v
		}
		if p.HasEnum {
			hasEnum = true
			if !p.EnumComplete {
				enumComplete = false
			}
		}
		if b, err := os.ReadFile(p.HashFile); err == nil {
			for i := 0; i+8 <= len(b); i += 8 {
				hashList = append(hashList, binary.LittleEndian.Uint64(b[i:]))
			}
		}
		if p.HashCapped {
			capped = true
		}
		for k, v := range p.Extra {
			switch x := v.(type) {
			case float64:
				if old, ok := extra[k].(float64); ok {
					extra[k] = old + x
				} else {
					extra[k] = x
				}
			default:
				if _, ok := extra[k]; !ok {
					extra[k] = v
				}
			}
		}
	}
	// samples: at most 10, rotating through the shards' lists so that late
	// (random-tier) samples are represented as well as early (enumerated) ones
	seenSample := map[string]bool{}
	for round := 0; round < 12 && len(samples) < 10; round++ {
		for i, p := range parts {
			if len(p.Samples) == 0 || len(samples) >= 10 {
				continue
			}
			idx := (len(p.Samples) - 1 - (i+round)%len(p.Samples))
			b, _ := json.Marshal(p.Samples[idx])
			if seenSample[string(b)] {
				continue
			}
			seenSample[string(b)] = true
			samples = append(samples, p.Samples[idx])
		}
	}
	p0 := parts[0]
	cov["evaluations"] = evals
	sort.Slice(hashList, func(i, j int) bool { return hashList[i] < hashList[j] })
	distinct := 0
	for i, h := range hashList {
		if i == 0 || h != hashList[i-1] {
			distinct++
		}
	}
	cov["distinct_nontrivial"] = distinct
	if capped {
		cov["distinct_nontrivial_is_lower_bound"] = true
	}
	cov["nontrivial_evaluations"] = nt
	cov["rule"] = p0.Rule
	cov["samples"] = samples
	cov["corpus_cases"] = corpus
	cov["enumerated_cases"] = enum
	cov["random_cases"] = random
	cov["shards"] = shards
	cov["shards_reporting"] = len(parts)
	cov["classes"] = classes
	cov["excluded_out_of_claim"] = ooc
	cov["excluded_known"] = known
	if hasEnum {
		cov["exhaustive"] = enumComplete && len(parts) == shards && !timedOut
		cov["exhaustive_part"] = p0.EnumNote
	}
	for k, v := range extra {
		if _, ok := cov[k]; !ok {
			cov[k] = v
		}
	}
	if len(fuzzExecs) > 0 {
		cov["native_fuzz_execs"] = fuzzExecs
	}
	evd := map[string]any{
		"property_id": id,
		"tier":        tier,
		"seed":        seed,
		"level":       p0.Level,
		"coverage":    cov,
		"assumptions": p0.Assumptions,
		"wall_s":      wall,
		"violations":  nviol,
	}
	b, _ := json.MarshalIndent(evd, "", " ")
	os.WriteFile(file, b, 0o644)
}

var execsRE = regexp.MustCompile(`execs: (\d+)`)

// fuzz runs one native fuzz campaign. The target writes its own replay files
// and puts a VIOLATION line into its failure message.
func fuzz(id, lid, target string, d time.Duration, modfile string, cfg propCfg) (execs int64, viol []string, infra []string) {
	harness := filepath.Join(root, "harness")
	// campaign corpus lives in the build directory, never in /verif
	cache := filepath.Join(buildDir, "fuzzcache-"+lid)
	args := []string{"test", "-tags", "verif", "-vet=off", "-run=^$", "-fuzz=^" + target + "$", fmt.Sprintf("-fuzztime=%s", d)}
	if modfile != "" {
		args = append(args, "-modfile="+modfile)
	}
	// flags of the test binary go after the package
	args = append(args, "./props/"+lid, "-test.fuzzcachedir="+cache)
	ctx, cancel := context.WithTimeout(context.Background(), d+5*time.Minute)
	defer cancel()
	cmd := exec.CommandContext(ctx, "go", args...)
	cmd.Dir = harness
	cmd.Env = append(goEnv, "VERIF_ROOT="+root, "VERIF_REPO="+repo, "VERIF_FUZZING=1")
	outb, err := cmd.CombinedOutput()
	text := string(outb)
	os.WriteFile(filepath.Join(buildDir, fmt.Sprintf("last-%s-fuzz-%s.log", lid, target)), outb, 0o644)
	for _, m := range execsRE.FindAllStringSubmatch(text, -1) {
		n, _ := strconv.ParseInt(m[1], 10, 64)
		if n > execs {
			execs = n
		}
	}
	for _, ln := range strings.Split(text, "\n") {
		if i := strings.Index(ln, "VIOLATION property="); i >= 0 {
			viol = append(viol, strings.TrimSpace(ln[i:]))
		}
	}
	// a crasher stored by the engine without a violation record: the worker died (fatal error). Convert and confirm.
	if len(viol) == 0 {
		if m := regexp.MustCompile(`Failing input written to (\S+)`).FindStringSubmatch(text); m != nil {
			in := filepath.Join(harness, "props", lid, m[1])
			rdir := getenv("VERIF_REPLAYS", filepath.Join(root, "replays", lid))
			os.MkdirAll(rdir, 0o755)
			sum := sha256.Sum256([]byte(in + text))
			rp := filepath.Join(rdir, fmt.Sprintf("fuzzcrash-%x.json", sum[:8]))
			conv := exec.Command("go", append([]string{"test", "-tags", "verif", "-vet=off", "-run=^TestFuzzConvert$"}, append(modArgs(modfile), "./props/"+lid)...)...)
			conv.Dir = harness
			conv.Env = append(goEnv, "VERIF_FUZZ_INPUT="+in, "VERIF_FUZZ_REPLAY="+rp)
			if out, cerr := conv.CombinedOutput(); cerr == nil {
				bin, _ := build(id, cfg)
				if replay(id, bin, rp, false) == 1 {
					viol = append(viol, fmt.Sprintf("VIOLATION property=%s replay=%s", id, rp))
				} else {
					os.Remove(rp)
					infra = append(infra, fmt.Sprintf("fuzz target %s: the engine stored a crasher that does not reproduce in a fresh process", target))
				}
				err = nil
			} else {
				infra = append(infra, fmt.Sprintf("fuzz target %s: cannot convert the stored crasher: %s", target, tail(string(out), 600)))
				err = nil
			}
		}
	}
	// remove crashers the engine stored inside the harness tree
	os.RemoveAll(filepath.Join(harness, "props", lid, "testdata", "fuzz", target))
	if err != nil && len(viol) == 0 {
		if strings.Contains(text, "Failing input written to") || strings.Contains(text, "--- FAIL") {
			infra = append(infra, fmt.Sprintf("fuzz target %s failed without a violation record: %s", target, tail(text, 1500)))
		} else if ctx.Err() != nil {
			infra = append(infra, fmt.Sprintf("fuzz target %s exceeded its budget", target))
		} else {
			infra = append(infra, fmt.Sprintf("fuzz target %s: %v: %s", target, err, tail(text, 1500)))
		}
	}
	return
}
