// C13 — names bind to the right module revision; submodules merge into their owner.
package c13

import (
	"encoding/json"
	"fmt"
	"os"
	"path/filepath"
	"regexp"
	"sort"
	"strings"
	"testing"

	"github.com/openconfig/goyang/pkg/yang"
	"pgregory.net/rapid"

	"verif/lib/canon"
	"verif/lib/ev"
	"verif/lib/schema"
	"verif/lib/ymodel"
	"verif/lib/yref"
)

// Header is a module header for the revision generator.
type Header struct {
	Name      string   `json:"name"`
	Revisions []string `json:"revisions,omitempty"` // any order
	Tag       string   `json:"tag"`                 // goes into the namespace, identifies the text
	// SharedNS: all texts of this name carry the namespace urn:<name>, as the revisions of a real module do;
	// the tag then stands in the organization statement.
	SharedNS bool `json:"shared_namespace,omitempty"`
}

// tagOf reads back the "urn:"+tag of a header module.
func tagOf(m *yang.Module) string {
	if m == nil {
		return "nothing"
	}
	if m.Organization != nil {
		return "urn:" + m.Organization.Name
	}
	if m.Namespace == nil {
		return "no namespace"
	}
	return m.Namespace.Name
}

type Importer struct {
	Name   string `json:"name"`
	Of     string `json:"of"`
	Date   string `json:"date,omitempty"`
	ViaSub bool   `json:"via_submodule,omitempty"`
}

type FileSpec struct {
	Dir  int    `json:"dir"`
	Name string `json:"name"` // file name
	Dir2 bool   `json:"is_dir,omitempty"`
	// Sub: the file lies in this sub-directory of the search-path directory ("" = in the directory itself)
	Sub string `json:"sub,omitempty"`
}

type Case struct {
	Kind string `json:"kind"` // revisions | files | split
	// revisions
	Headers   []Header   `json:"headers,omitempty"`
	Importers []Importer `json:"importers,omitempty"`
	Perm      [][]int    `json:"perms,omitempty"`
	// files
	Dirs     int        `json:"dirs,omitempty"`
	Files    []FileSpec `json:"files,omitempty"`
	Want     string     `json:"want_module,omitempty"`
	ViaImp   bool       `json:"via_import,omitempty"`
	WantDate string     `json:"import_date,omitempty"`
	// Retry: the fetch is first tried before the directories are put on the search path (it must fail: nothing
	// is there), then the directories are added and it is tried again on the same module set
	Retry bool `json:"retry_after_adding_the_path,omitempty"`
	// Recurse[d]: directory d is put on the search path as "d/...": d and everything below it is searched
	Recurse []bool `json:"recursive_dirs,omitempty"`
	// Cwd: directory 0 is not put on the search path; the process stands in it while the module is fetched ("the
	// current directory is always checked first, no matter the value of Path", findFile)
	Cwd bool `json:"first_directory_is_the_current_one,omitempty"`
	// revsub: revisions of one module that each include the submodule "sub"
	RevMods []RevMod `json:"revision_modules,omitempty"`
	SubRevs []string `json:"submodule_revisions,omitempty"` // "" = a text without revision
	Nested  bool     `json:"nested,omitempty"`              // sub includes sub2, which the modules include too
	// UndatedImp (revsub): a module named before rm imports rm without revision-date
	UndatedImp bool `json:"undated_importer,omitempty"`
	Deep       bool `json:"deep,omitempty"` // with Nested: sub2 includes sub3, which the modules include too
	// mixed: revisions of lib partly loaded, partly waiting in a search-path directory, importers of both kinds
	Loaded   []string   `json:"loaded_revisions,omitempty"`  // "" = a text without revision statement
	OnDisk   []string   `json:"revisions_on_disk,omitempty"` // lib@DATE.yang files
	MixedImp []Importer `json:"mixed_importers,omitempty"`
	// split
	Whole *ymodel.Set `json:"whole,omitempty"`
	Split *ymodel.Set `json:"split,omitempty"`
}

func latest(revs []string) string {
	l := ""
	for _, r := range revs {
		if r > l {
			l = r
		}
	}
	return l
}

func (h Header) text() string {
	var b strings.Builder
	if h.SharedNS {
		fmt.Fprintf(&b, "module %s {\n namespace \"urn:%s\";\n prefix p;\n import common { prefix cm; }\n organization \"%s\";\n", h.Name, h.Name, h.Tag)
	} else {
		fmt.Fprintf(&b, "module %s {\n namespace \"urn:%s\";\n prefix p;\n import common { prefix cm; }\n", h.Name, h.Tag)
	}
	for _, r := range h.Revisions {
		fmt.Fprintf(&b, " revision %s;\n", r)
	}
	// every revision defines t, g and id in its own way, so that what a prefix denotes is observable
	fmt.Fprintf(&b, " typedef t { type string; units \"%s\"; }\n grouping g { leaf from-%s { type string; } }\n identity id;\n typedef lt { type identityref { base id; } }\n leaf ll { type lt; }\n", h.Tag, h.Tag)
	b.WriteString("}\n")
	return b.String()
}

func (h Header) full() string {
	if l := latest(h.Revisions); l != "" {
		return h.Name + "@" + l
	}
	return h.Name
}

func (i Importer) text() string {
	d := ""
	if i.Date != "" {
		d = " revision-date " + i.Date + ";"
	}
	return fmt.Sprintf("module %s {\n namespace \"urn:%s\";\n prefix q;\n import %s { prefix i;%s }\n leaf l { type i:t; }\n container c { uses i:g; }\n leaf r { type identityref { base i:id; } }\n}\n", i.Name, i.Name, i.Of, d)
}

// ---- (a) revisions ----

func checkRevisions(c Case, o *ev.Outcome) {
	// expected: per (name, latest revision) exactly one accepted text; duplicates are textually identical by construction
	type key struct{ name, rev string }
	want := map[key]string{} // -> tag
	dups := 0
	for _, h := range c.Headers {
		k := key{h.Name, latest(h.Revisions)}
		if _, ok := want[k]; ok {
			dups++
		} else {
			want[k] = h.Tag
		}
	}
	latestOf := map[string]key{}
	names := map[string]int{}
	mixed := false
	for k := range want {
		names[k.name]++
		if cur, ok := latestOf[k.name]; !ok || k.rev > cur.rev {
			latestOf[k.name] = k
		}
	}
	for n := range names {
		hasPlain, hasRev := false, false
		for k := range want {
			if k.name == n {
				if k.rev == "" {
					hasPlain = true
				} else {
					hasRev = true
				}
			}
		}
		if hasPlain && hasRev {
			mixed = true
		}
	}
	if dups > 0 {
		o.Class("duplicate-name-and-revision")
	}
	if mixed {
		o.Class("with-and-without-revision")
	}
	multi := false
	for _, n := range names {
		if n > 1 {
			multi = true
		}
	}
	o.NonTrivial = multi || dups > 0
	perms := c.Perm
	if len(perms) == 0 {
		idx := make([]int, len(c.Headers))
		for i := range idx {
			idx[i] = i
		}
		perms = [][]int{idx}
	}
	for _, perm := range perms {
		ms := yang.NewModules()
		if err := ms.Parse("module common { namespace \"urn:common\"; prefix cm; }", "common.yang"); err != nil {
			panic(err)
		}
		accepted := map[key]int{}
		for _, i := range perm {
			h := c.Headers[i]
			err := ms.Parse(h.text(), h.full()+".yang")
			k := key{h.Name, latest(h.Revisions)}
			if err == nil {
				accepted[k]++
			}
		}
		cls := "plain"
		if mixed {
			cls = "with-and-without-revision"
		}
		for k := range want {
			switch accepted[k] {
			case 0:
				o.Violate("distinct-revisions-accepted", "C13/revisions/rejected-distinct/"+cls, "load order %v: no text for %s@%q was accepted although it differs in (name, latest revision) from every other text", perm, k.name, k.rev)
				return
			case 1:
			default:
				o.Violate("same-revision-twice-rejected", "C13/revisions/duplicate-accepted/"+cls, "load order %v: %d texts for %s@%q were accepted", perm, accepted[k], k.name, k.rev)
				return
			}
		}
		// bindings
		for n, k := range latestOf {
			m := ms.Modules[n]
			if tagOf(m) != "urn:"+want[k] {
				got := tagOf(m)
				o.Violate("bare-name-is-latest", "C13/revisions/bare-name/"+cls, "load order %v: the bare name %s denotes %s, the latest loaded revision is %q (urn:%s)", perm, n, got, k.rev, want[k])
				return
			}
		}
		if len(c.Headers) > 0 && c.Headers[0].SharedNS {
			o.Class("revisions-share-namespace")
		}
		for k, tag := range want {
			if k.rev == "" {
				continue
			}
			m := ms.Modules[k.name+"@"+k.rev]
			if tagOf(m) != "urn:"+tag {
				o.Violate("dated-name-is-exact", "C13/revisions/dated-key/"+cls, "load order %v: %s@%s does not denote the text with that revision", perm, k.name, k.rev)
				return
			}
		}
		// importers
		for _, im := range c.Importers {
			if err := ms.Parse(im.text(), im.Name+".yang"); err != nil {
				o.OutOfClaim = "importer rejected (harness)"
				return
			}
		}
		{
			var errs []error
			if !ev.Guard(o, "Process", func() { errs = ms.Process() }) {
				return
			}
			if len(errs) > 0 {
				o.Violate("imports-resolve", "C13/revisions/import-fails/"+cls, "load order %v: processing importers of loaded modules failed: %v", perm, errs)
				return
			}
			// every revision that the registry holds has its own import bound, whether or not anything names it
			for k, mod := range ms.Modules {
				for _, im := range mod.Import {
					if im.Module == nil || im.Module.Name != im.Name {
						o.Violate("imports-resolve", "C13/revisions/own-import-unbound/"+cls, "load order %v: after processing, the import of %s in the module filed as %s is not bound", perm, im.Name, k)
						return
					}
				}
			}
			for _, im := range c.Importers {
				mod := ms.Modules[im.Name]
				if mod == nil || len(mod.Import) != 1 || mod.Import[0].Module == nil {
					o.Violate("imports-resolve", "C13/revisions/import-unbound/"+cls, "load order %v: import of %s in %s is not bound", perm, im.Of, im.Name)
					return
				}
				got := tagOf(mod.Import[0].Module)
				var exp string
				if im.Date == "" {
					exp = "urn:" + want[latestOf[im.Of]]
				} else {
					exp = "urn:" + want[key{im.Of, im.Date}]
				}
				kind := "undated"
				if im.Date != "" {
					kind = "dated"
				}
				if got != exp {
					o.Violate("import-denotes-revision", "C13/revisions/import-binding/"+kind+"/"+cls, "load order %v: import %s (revision-date %q) in %s is bound to %s, expected %s", perm, im.Of, im.Date, im.Name, got, exp)
					return
				}
				// what the prefix denotes for types, groupings and identities
				tag := strings.TrimPrefix(exp, "urn:")
				e := yang.ToEntry(mod)
				if l := e.Dir["l"]; l == nil || l.Type == nil || l.Type.Units != tag {
					gotU := "?"
					if l != nil && l.Type != nil {
						gotU = l.Type.Units
					}
					o.Violate("prefix-denotes-revision", "C13/revisions/prefix-binding/typedef/"+kind+"/"+cls, "load order %v: in %s the type i:t (import %s, revision-date %q) is the typedef of %q, expected %q", perm, im.Name, im.Of, im.Date, gotU, tag)
					return
				}
				if c := e.Dir["c"]; c == nil || c.Dir["from-"+tag] == nil || len(c.Dir) != 1 {
					o.Violate("prefix-denotes-revision", "C13/revisions/prefix-binding/grouping/"+kind+"/"+cls, "load order %v: in %s 'uses i:g' (import %s, revision-date %q) did not expand the grouping of %q", perm, im.Name, im.Of, im.Date, tag)
					return
				}
				if r := e.Dir["r"]; r == nil || r.Type == nil || r.Type.IdentityBase == nil || canon.OwnerName(r.Type.IdentityBase) != im.Of || tagOf(yang.RootNode(r.Type.IdentityBase)) != exp {
					o.Violate("prefix-denotes-revision", "C13/revisions/prefix-binding/identity/"+kind+"/"+cls, "load order %v: in %s the identityref base i:id (import %s, revision-date %q) is not the identity of %q (%s)", perm, im.Name, im.Of, im.Date, tag, func() string {
						if r == nil || r.Type == nil {
							return "no leaf/type"
						}
						if r.Type.IdentityBase == nil {
							return "IdentityBase is nil"
						}
						return "found in " + canon.OwnerName(r.Type.IdentityBase) + " " + tagOf(yang.RootNode(r.Type.IdentityBase))
					}())
					return
				}
			}
		}
	}
}

// ---- (b) file chooser ----

var dateRE = func(s string) bool {
	if len(s) != 10 {
		return false
	}
	for i, ch := range s {
		if i == 4 || i == 7 {
			if ch != '-' {
				return false
			}
		} else if ch < '0' || ch > '9' {
			return false
		}
	}
	return true
}

// searched: is the place where f lies searched when directory f.Dir is asked? Sub-directories only below a
// search-path entry of the form dir/... .
func (c Case) searched(f FileSpec) bool {
	return f.Sub == "" || (f.Dir < len(c.Recurse) && c.Recurse[f.Dir])
}

// rel: the file's path below its search-path directory
func (f FileSpec) rel() string {
	if f.Sub == "" {
		return f.Name
	}
	return f.Sub + "/" + f.Name
}

// expectedFile: the first directory holding a candidate; name.yang, else the latest date. (Below a dir/... entry the
// generator keeps all candidates in one directory, so that which sub-directory is asked first does not matter.)
func expectedFile(c Case, want string) (int, string) {
	for d := 0; d < c.Dirs; d++ {
		exact := ""
		var dated []string
		sub := map[string]string{}
		for _, f := range c.Files {
			if f.Dir != d || f.Dir2 || !c.searched(f) {
				continue
			}
			if f.Name == want+".yang" {
				exact = f.rel()
			} else if strings.HasPrefix(f.Name, want+"@") && strings.HasSuffix(f.Name, ".yang") && dateRE(strings.TrimSuffix(strings.TrimPrefix(f.Name, want+"@"), ".yang")) {
				dated = append(dated, f.Name)
				sub[f.Name] = f.rel()
			}
		}
		if exact != "" {
			return d, exact
		}
		if len(dated) > 0 {
			sort.Strings(dated)
			return d, sub[dated[len(dated)-1]]
		}
	}
	return -1, ""
}

func checkFiles(c Case, o *ev.Outcome) {
	root, err := ev.MkdirTemp("verif-c13-")
	if err != nil {
		panic(err)
	}
	defer os.RemoveAll(root)
	var dirs []string
	for d := 0; d < c.Dirs; d++ {
		p := filepath.Join(root, fmt.Sprintf("d%d", d))
		os.MkdirAll(p, 0o755)
		dirs = append(dirs, p)
	}
	nearMiss := 0
	for _, f := range c.Files {
		p := filepath.Join(dirs[f.Dir], filepath.FromSlash(f.rel()))
		os.MkdirAll(filepath.Dir(p), 0o755)
		if f.Dir2 {
			os.MkdirAll(p, 0o755)
			continue
		}
		// every file claims to be the wanted module; the namespace tells which file was opened
		rev := ""
		if i := strings.IndexByte(f.Name, '@'); i >= 0 {
			d := strings.TrimSuffix(f.Name[i+1:], ".yang")
			if dateRE(d) {
				rev = " revision " + d + ";"
			}
		}
		// every candidate augments a container of its own: a module that was fetched must be processed like one
		// that was handed in
		text := fmt.Sprintf("module %s { namespace \"urn:d%d/%s\"; prefix p;%s container box { } augment \"/p:box\" { leaf fetched-and-augmented { type string; } } }\n", c.Want, f.Dir, f.rel(), rev)
		os.WriteFile(p, []byte(text), 0o644)
		if f.Name != c.Want+".yang" && !(strings.HasPrefix(f.Name, c.Want+"@") && strings.HasSuffix(f.Name, ".yang") && dateRE(strings.TrimSuffix(strings.TrimPrefix(f.Name, c.Want+"@"), ".yang"))) {
			nearMiss++
		}
	}
	wantDir, wantFile := expectedFile(c, c.Want)
	if c.WantDate != "" {
		// dated import: the exact file, in the first directory that has it
		wantDir, wantFile = -1, ""
		for d := 0; d < c.Dirs && wantDir < 0; d++ {
			for _, f := range c.Files {
				if f.Dir == d && !f.Dir2 && c.searched(f) && f.Name == c.Want+"@"+c.WantDate+".yang" {
					wantDir, wantFile = d, f.rel()
				}
			}
		}
		if wantDir < 0 {
			o.OutOfClaim = "dated import whose revision file does not exist"
			return
		}
	}
	o.Class(fmt.Sprintf("dirs-%d", c.Dirs))
	if nearMiss > 0 {
		o.Class("near-miss-files")
	}
	if c.ViaImp {
		o.Class("fetched-by-import")
	}
	o.NonTrivial = len(c.Files) >= 2
	ms := yang.NewModules()
	if c.Retry {
		o.Class("fetch-retried-after-the-path-was-added")
		early := false
		ev.Guard(o, "fetch before the path is known", func() {
			if c.ViaImp {
				d := ""
				if c.WantDate != "" {
					d = " revision-date " + c.WantDate + ";"
				}
				if err := ms.Parse(fmt.Sprintf("module imp { namespace \"urn:imp\"; prefix q; import %s { prefix i;%s } }", c.Want, d), "imp.yang"); err == nil {
					early = len(ms.Process()) == 0
				}
			} else {
				early = ms.Read(c.Want) == nil
			}
		})
		if len(o.Violations) > 0 {
			return
		}
		if early {
			o.Violate("never-a-foreign-file", "C13/files/found-without-a-search-path", "%s was found although no directory had been put on the search path yet (files: %v)", c.Want, c.Files)
			return
		}
	}
	for d, p := range dirs {
		if d < len(c.Recurse) && c.Recurse[d] {
			o.Class("recursive-search-path-entry")
			p = filepath.Join(p, "...")
		}
		if c.Cwd && d == 0 {
			continue
		}
		ms.AddPath(p)
	}
	if c.Cwd {
		// one case at a time runs in this process and nothing else in it uses relative paths
		o.Class("first-directory-is-the-current-one")
		old, err := os.Getwd()
		if err != nil || os.Chdir(dirs[0]) != nil {
			panic(fmt.Sprint("chdir ", dirs[0], ": ", err))
		}
		defer os.Chdir(old)
	}
	for _, f := range c.Files {
		if f.Sub != "" && !f.Dir2 && !c.searched(f) {
			o.Class("files-below-a-plain-entry")
			break
		}
	}
	var loadErr error
	ok := ev.Guard(o, "fetch", func() {
		if c.ViaImp {
			d := ""
			if c.WantDate != "" {
				d = " revision-date " + c.WantDate + ";"
			}
			if !c.Retry {
				if err := ms.Parse(fmt.Sprintf("module imp { namespace \"urn:imp\"; prefix q; import %s { prefix i;%s } }", c.Want, d), "imp.yang"); err != nil {
					loadErr = err
					return
				}
			}
			if errs := ms.Process(); len(errs) > 0 {
				loadErr = fmt.Errorf("%v", errs)
			}
		} else {
			loadErr = ms.Read(c.Want)
		}
	})
	if !ok {
		return
	}
	how := "read"
	if c.ViaImp {
		how = "import"
		if c.WantDate != "" {
			how = "dated-import"
		}
	}
	if wantDir < 0 {
		if loadErr == nil {
			got := "?"
			if m := ms.Modules[c.Want]; m != nil {
				got = m.Namespace.Name
			}
			o.Violate("never-a-foreign-file", "C13/files/foreign-file-opened/"+how, "no directory holds %s.yang or %s@YYYY-MM-DD.yang, yet the module was loaded from %s (files: %v)", c.Want, c.Want, got, c.Files)
		}
		return
	}
	if loadErr != nil {
		o.Violate("candidate-is-found", "C13/files/candidate-not-found/"+how, "d%d/%s is a candidate for %s but loading failed: %v (files: %v)", wantDir, wantFile, c.Want, loadErr, c.Files)
		return
	}
	var m *yang.Module
	if c.WantDate != "" {
		imp := ms.Modules["imp"]
		if imp != nil && len(imp.Import) == 1 {
			m = imp.Import[0].Module
		}
	} else {
		m = ms.Modules[c.Want]
	}
	exp := fmt.Sprintf("urn:d%d/%s", wantDir, wantFile)
	if m != nil && m.Namespace.Name == exp && c.ViaImp {
		// Process has run: the module's own augment has been applied
		if box := yang.ToEntry(m).Dir["box"]; box == nil || box.Dir["fetched-and-augmented"] == nil {
			o.Violate("fetched-is-processed", "C13/files/fetched-module-not-augmented/"+how, "d%d/%s was fetched for the import and processing reported no error, but its own augment of /box has not been applied", wantDir, wantFile)
			return
		}
	}
	if m == nil || m.Namespace.Name != exp {
		got := "nothing"
		if m != nil {
			got = m.Namespace.Name
		}
		what := "wrong-candidate"
		if m != nil && !strings.HasPrefix(got, fmt.Sprintf("urn:d%d/", wantDir)) {
			what = "wrong-directory"
		}
		o.Violate("right-file-chosen", "C13/files/"+what+"/"+how, "expected the module from %s, got %s (files: %v)", exp, got, c.Files)
	}
}

// ---- (c) include = inline ----

var heldIn = regexp.MustCompile(`"IdentityBaseIn":"[^"]*",?|"IdentityValues":\[[^\]]*\],?`)

func dumpModule(ms *yang.Modules, name string) string {
	m := ms.Modules[name]
	if m == nil {
		return "module missing"
	}
	var problems []string
	x := canon.Entry(yang.ToEntry(m), canon.Opts{Attrs: true}, &problems)
	j, _ := json.Marshal(x)
	// which text holds an identity differs between the split and the unsplit module by construction
	j = heldIn.ReplaceAll(j, nil)
	var ids []string
	all := append([]*yang.Identity(nil), m.Identity...)
	for _, in := range m.Include {
		if in.Module != nil {
			all = append(all, in.Module.Identity...)
		}
	}
	for _, id := range all {
		var vs []string
		for _, v := range id.Values {
			vs = append(vs, v.Name)
		}
		ids = append(ids, id.Name+":"+strings.Join(vs, ","))
	}
	sort.Strings(ids)
	// the identities the module's entry lists as its own (as a set: the order of texts differs by construction)
	var own []string
	for _, id := range yang.ToEntry(m).Identities {
		own = append(own, id.Name)
	}
	sort.Strings(own)
	return string(j) + fmt.Sprint(problems) + strings.Join(ids, ";") + " entry-identities=" + strings.Join(own, ",")
}

func checkSplit(c Case, o *ev.Outcome) {
	if c.Whole == nil || c.Split == nil {
		o.OutOfClaim = "empty case"
		return
	}
	load := func(set *ymodel.Set) (*schema.Observed, bool) {
		var obs *schema.Observed
		ok := ev.Guard(o, "load+process", func() {
			obs = schema.Load(set.Texts(), func(ms *yang.Modules) { ms.ParseOptions.IgnoreSubmoduleCircularDependencies = true })
		})
		return obs, ok
	}
	whole, ok := load(c.Whole)
	if !ok {
		return
	}
	if !whole.Clean() {
		o.OutOfClaim = "the unsplit module does not process cleanly (judged elsewhere)"
		return
	}
	split, ok := load(c.Split)
	if !ok {
		return
	}
	nsub := len(c.Split.Modules) - 1
	o.Class(fmt.Sprintf("submodules-%d", nsub))
	mutual := false
	for _, m := range c.Split.Modules {
		for _, inc := range m.Includes {
			if s := c.Split.Find(inc); s != nil && m.IsSub {
				for _, back := range s.Includes {
					if back == m.Name {
						mutual = true
					}
				}
			}
		}
	}
	if mutual {
		o.Class("mutual-includes")
	}
	o.NonTrivial = nsub >= 1
	if !split.Clean() {
		o.Violate("include-is-inline", "C13/split/rejected/"+schema.ErrClass(split.ErrText()), "the module processes cleanly when written in one piece, but split into %d submodule(s): %s", nsub, split.ErrText())
		return
	}
	var a, b string
	if !ev.Guard(o, "dump", func() { a, b = dumpModule(whole.MS, "m1"), dumpModule(split.MS, "m1") }) {
		return
	}
	if a != b {
		// find the first differing piece for the signature
		var xa, xb yref.XNode
		json.Unmarshal([]byte(a[:strings.LastIndex(a, "}")+1]), &xa)
		json.Unmarshal([]byte(b[:strings.LastIndex(b, "}")+1]), &xb)
		what := "identities"
		detail := ""
		if d := canon.Diff(&xa, &xb, canon.DiffOpts{Types: true, NS: true, ReadOnly: true, Defaults: true}, "/m1"); d != nil {
			what = d.What
			detail = d.String()
		}
		o.Violate("include-is-inline", "C13/split/differs/"+what, "tree, types or identity lists of the split module differ from the unsplit one: %s", detail)
	}
}

// RevMod is one revision of the module "rm".
type RevMod struct {
	Rev     string `json:"revision"`
	SubDate string `json:"include_revision_date,omitempty"` // "" = include without revision-date
}

func (c Case) revsubTexts() []ymodel.Source {
	var out []ymodel.Source
	for i, m := range c.RevMods {
		inc := "include sub;"
		if m.SubDate != "" {
			inc = "include sub { revision-date " + m.SubDate + "; }"
		}
		if c.Nested {
			inc += " include sub2;"
			if c.Deep {
				inc += " include sub3;"
			}
		}
		out = append(out, ymodel.Source{Name: "rm@" + m.Rev + ".yang", Text: fmt.Sprintf("module rm {\n namespace \"urn:rm\";\n prefix r;\n %s\n revision %s;\n leaf top%d { type subt; }\n container holder { }\n identity modid { base subid; }\n identity modbase;\n}\n", inc, m.Rev, i)})
	}
	for i, m := range c.RevMods {
		// an importer of exactly this revision that names the typedef the submodule holds
		out = append(out, ymodel.Source{Name: fmt.Sprintf("imp%d.yang", i), Text: fmt.Sprintf("module imp%d {\n namespace \"urn:imp%d\";\n prefix q;\n import rm { prefix r; revision-date %s; }\n leaf l { type r:subt; }\n}\n", i, i, m.Rev)})
	}
	if c.UndatedImp {
		// a module whose name sorts before rm and that imports rm without a revision-date (the latest revision):
		// whoever binds imports and includes by walking the modules in order meets the latest revision first
		out = append(out, ymodel.Source{Name: "aimp.yang", Text: "module aimp {\n namespace \"urn:aimp\";\n prefix q;\n import rm { prefix r; }\n leaf l { type r:subt; }\n container c { leaf x { type string; } }\n}\n"})
	}
	for j, d := range c.SubRevs {
		rev, name, inc := "", "sub.yang", ""
		if d != "" {
			rev, name = " revision "+d+";", "sub@"+d+".yang"
		}
		if c.Nested {
			inc = " include sub2;"
		}
		out = append(out, ymodel.Source{Name: name, Text: fmt.Sprintf("submodule sub {\n belongs-to rm { prefix r; }\n import idb { prefix b; }%s%s\n leaf sub%d { type string; }\n typedef subt { type string; units \"s%d\"; }\n identity subid;\n identity subderived { base subid; }\n identity x { base b:top; }\n augment \"/r:holder\" { leaf aug%d { type string; } }\n}\n", inc, rev, j, j, j)})
	}
	// every text of sub derives an identity of the same name from this one
	out = append(out, ymodel.Source{Name: "idb.yang", Text: "module idb {\n namespace \"urn:idb\";\n prefix b;\n identity top;\n}\n"})
	if c.Nested {
		inc3 := ""
		if c.Deep {
			inc3 = " include sub3;\n"
			out = append(out, ymodel.Source{Name: "sub3.yang", Text: "submodule sub3 {\n belongs-to rm { prefix r; }\n leaf deep { type string; }\n}\n"})
		}
		out = append(out, ymodel.Source{Name: "sub2.yang", Text: "submodule sub2 {\n belongs-to rm { prefix r; }\n" + inc3 + " leaf nested { type string; }\n}\n"})
	}
	return out
}

// checkRevSub: every revision of the module holds its own leaf, the leaf of exactly the submodule text its
// include denotes (dated: that revision; undated: the latest loaded), and the nested submodule's leaf once.
func checkRevSub(c Case, o *ev.Outcome) {
	srcs := c.revsubTexts()
	o.NonTrivial = len(c.RevMods) >= 2
	if len(c.SubRevs) > 1 {
		o.Class("revsub/several-submodule-revisions")
	}
	if c.Nested {
		o.Class("revsub/nested-include")
	}
	if c.Deep {
		o.Class("revsub/include-chain-of-three")
	}
	latestSub := -1
	for j, d := range c.SubRevs {
		if latestSub < 0 || d > c.SubRevs[latestSub] {
			latestSub = j
		}
	}
	perms := c.Perm
	if len(perms) == 0 {
		idx := make([]int, len(srcs))
		for i := range idx {
			idx[i] = i
		}
		perms = [][]int{idx}
	}
	firstTop := ""
	for _, perm := range perms {
		// a stored order from before a text was added to the scenario: the texts it does not name come last
		if len(perm) < len(srcs) {
			have := map[int]bool{}
			for _, i := range perm {
				have[i] = true
			}
			perm = append([]int(nil), perm...)
			for i := range srcs {
				if !have[i] {
					perm = append(perm, i)
				}
			}
		}
		ms := yang.NewModules()
		for _, i := range perm {
			if i < 0 || i >= len(srcs) {
				o.OutOfClaim = "bad permutation"
				return
			}
			if err := ms.Parse(srcs[i].Text, srcs[i].Name); err != nil {
				o.Violate("distinct-revisions-accepted", "C13/revsub/load-rejected", "load order %v: %s rejected: %v", perm, srcs[i].Name, err)
				return
			}
		}
		var errs []error
		if !ev.Guard(o, "Process", func() { errs = ms.Process() }) {
			return
		}
		if len(errs) > 0 {
			o.Violate("include-is-inline", "C13/revsub/rejected", "load order %v: processing failed: %v", perm, errs)
			return
		}
		// the identities of the same name that the texts of sub derive from idb:top: listed in the same order in
		// every run
		if idb := ms.Modules["idb"]; idb != nil && len(idb.Identity) == 1 {
			var vals []string
			for _, v := range idb.Identity[0].Values {
				vals = append(vals, yang.RootNode(v).FullName()+":"+v.Name)
			}
			seenVal := map[string]bool{}
			for _, v := range vals {
				if seenVal[v] {
					o.Violate("listed-once", "C13/revsub/identity-listed-twice", "load order %v: idb:top lists %v (a text of sub that two revisions of rm include contributes its identity once)", perm, vals)
					return
				}
				seenVal[v] = true
			}
			got := fmt.Sprint(vals)
			if firstTop == "" {
				firstTop = got
			} else if got != firstTop {
				o.Violate("fixed-order", "C13/revsub/identity-order-varies", "load order %v: idb:top lists %s, an earlier run listed %s", perm, got, firstTop)
				return
			}
		}
		for i, m := range c.RevMods {
			want := []string{fmt.Sprintf("top%d", i), "holder"}
			subIdx := latestSub
			if m.SubDate != "" {
				for j, d := range c.SubRevs {
					if d == m.SubDate {
						subIdx = j
					}
				}
			}
			want = append(want, fmt.Sprintf("sub%d", subIdx))
			if c.Nested {
				want = append(want, "nested")
				if c.Deep {
					want = append(want, "deep")
				}
			}
			sort.Strings(want)
			mod := ms.Modules["rm@"+m.Rev]
			if mod == nil {
				o.Violate("dated-name-is-exact", "C13/revsub/module-missing", "load order %v: rm@%s is not filed", perm, m.Rev)
				return
			}
			var got []string
			for k := range yang.ToEntry(mod).Dir {
				got = append(got, k)
			}
			sort.Strings(got)
			which := "later"
			if i == 0 {
				which = "first"
			}
			how := "dated-include"
			if m.SubDate == "" {
				how = "undated-include"
			}
			// typedef and identities of the submodule, as if written in the module
			e := yang.ToEntry(mod)
			if l := e.Dir[fmt.Sprintf("top%d", i)]; l == nil || l.Type == nil || l.Type.Units != fmt.Sprintf("s%d", subIdx) {
				o.Violate("include-is-inline", "C13/revsub/typedef-of-"+which+"-revision/"+how, "load order %v: in rm@%s the type subt is not the typedef of the submodule text its include denotes (sub%d)", perm, m.Rev, subIdx)
				return
			}
			var subid *yang.Identity
			for _, in := range mod.Include {
				if in.Module != nil && in.Name == "sub" {
					for _, id := range in.Module.Identity {
						if id.Name == "subid" {
							subid = id
						}
					}
				}
			}
			if subid == nil {
				o.Violate("include-is-inline", "C13/revsub/include-unbound", "load order %v: rm@%s: include of sub is not bound", perm, m.Rev)
				return
			}
			ownDerived := false
			for _, v := range subid.Values {
				if v.Name == "subderived" && yang.RootNode(v) == yang.RootNode(subid) {
					ownDerived = true
				}
			}
			if !ownDerived {
				var names []string
				for _, v := range subid.Values {
					names = append(names, yang.RootNode(v).FullName()+":"+v.Name)
				}
				o.Violate("include-is-inline", "C13/revsub/submodule-local-base/"+how, "load order %v: in %s the identity subderived (base subid, both written in that text) is not among the values of that subid: %v", perm, yang.RootNode(subid).FullName(), names)
				return
			}
			hasMod := false
			for _, v := range subid.Values {
				if v.Name == "modid" && yang.RootNode(v) == mod {
					hasMod = true
				}
			}
			if !hasMod {
				var names []string
				for _, v := range subid.Values {
					names = append(names, yang.RootNode(v).FullName()+":"+v.Name)
				}
				o.Violate("include-is-inline", "C13/revsub/identity-of-"+which+"-revision/"+how, "load order %v: the identity modid of rm@%s (base subid, defined in the submodule it includes) is not among the values of that subid: %v", perm, m.Rev, names)
				return
			}
			// the augment written in the submodule: judged for the revision that the bare name denotes (an older
			// revision that includes the same submodule does not get it: known, see DESIGN section 5)
			if mod == ms.Modules["rm"] {
				// a text of sub that no revision of rm includes still has its augment applied (the repository's
				// TestEntryNamespace pins that for a submodule its module does not include), and it lands in the
				// latest revision: extra nodes are judged only when every text of sub is included by some revision
				included := map[int]bool{}
				for _, mm := range c.RevMods {
					idx := latestSub
					if mm.SubDate != "" {
						for j, d := range c.SubRevs {
							if d == mm.SubDate {
								idx = j
							}
						}
					}
					included[idx] = true
				}
				h := yang.ToEntry(mod).Dir["holder"]
				if h == nil || h.Dir[fmt.Sprintf("aug%d", subIdx)] == nil || (len(h.Dir) != 1 && len(included) == len(c.SubRevs)) {
					var kids []string
					if h != nil {
						for k := range h.Dir {
							kids = append(kids, k)
						}
					}
					sort.Strings(kids)
					o.Violate("include-is-inline", "C13/revsub/submodule-augment/"+how, "load order %v: /holder of rm@%s holds %v, expected aug%d from the augment written in the submodule text it includes", perm, m.Rev, kids, subIdx)
					return
				}
			}
			if imp := ms.Modules[fmt.Sprintf("imp%d", i)]; imp != nil {
				if l := yang.ToEntry(imp).Dir["l"]; l == nil || l.Type == nil || l.Type.Units != fmt.Sprintf("s%d", subIdx) {
					u := "?"
					if l != nil && l.Type != nil {
						u = l.Type.Units
					}
					o.Violate("include-is-inline", "C13/revsub/imported-typedef-of-"+which+"-revision/"+how, "load order %v: imp%d imports rm@%s and names r:subt: it gets the typedef with units %q, the submodule text that revision includes defines it with units \"s%d\"", perm, i, m.Rev, u, subIdx)
					return
				}
			}
			if fmt.Sprint(got) != fmt.Sprint(want) {
				o.Violate("include-is-inline", "C13/revsub/tree-of-"+which+"-revision/"+how, "load order %v: the tree of rm@%s holds %v, expected %v (its own leaf and what its include of sub denotes)", perm, m.Rev, got, want)
				return
			}
		}
	}
}

func genRevSub(t *rapid.T) Case {
	c := Case{Kind: "revsub", Nested: rapid.IntRange(0, 2).Draw(t, "nested") == 0}
	c.UndatedImp = rapid.Bool().Draw(t, "undated-importer-named-before-the-module")
	c.Deep = c.Nested && rapid.Bool().Draw(t, "deep")
	subDates := []string{"", "2019-05-05", "2021-12-31"}
	k := rapid.IntRange(1, 2).Draw(t, "submodule-texts")
	seen := map[string]bool{}
	for j := 0; j < k; j++ {
		d := rapid.SampledFrom(subDates).Draw(t, "submodule-revision")
		if d == "" && k > 1 {
			d = "2019-05-05" // a text without revision beside dated ones is (a)'s business
		}
		if !seen[d] {
			seen[d] = true
			c.SubRevs = append(c.SubRevs, d)
		}
	}
	n := rapid.IntRange(1, 3).Draw(t, "module-revisions")
	for i := 0; i < n; i++ {
		m := RevMod{Rev: dates[i]}
		if rapid.Bool().Draw(t, "dated-include") {
			d := c.SubRevs[rapid.IntRange(0, len(c.SubRevs)-1).Draw(t, "include-date")]
			m.SubDate = d
		}
		c.RevMods = append(c.RevMods, m)
	}
	nn := len(c.revsubTexts())
	idx := make([]int, nn)
	for i := range idx {
		idx[i] = i
	}
	c.Perm = append(c.Perm, append([]int(nil), idx...), append([]int(nil), idx...), append([]int(nil), idx...))
	for i := 0; i < 7; i++ {
		c.Perm = append(c.Perm, schema.Order(t, nn))
	}
	return c
}

func check(c Case) (o ev.Outcome) {
	o.Sample = c
	switch c.Kind {
	case "revsub":
		ev.Guard(&o, "revsub", func() { checkRevSub(c, &o) })
	case "revisions":
		ev.Guard(&o, "revisions", func() { checkRevisions(c, &o) })
	case "files":
		ev.Guard(&o, "files", func() { checkFiles(c, &o) })
	case "mixed":
		ev.Guard(&o, "mixed", func() { checkMixed(c, &o) })
	case "split":
		checkSplit(c, &o)
		if c.Split != nil {
			o.Sample = map[string]any{"kind": "split", "sources": c.Split.Texts()}
		}
	default:
		o.OutOfClaim = "unknown kind"
	}
	for i := range o.Violations {
		if strings.HasPrefix(o.Violations[i].Sig, "panic/") {
			o.Violations[i].Sig = "C13/" + c.Kind + "/" + o.Violations[i].Sig
		}
	}
	return o
}

// ---- generators ----

var dates = []string{"2019-05-05", "2020-01-01", "2020-01-02", "2021-12-31"}

func genRevisions(t *rapid.T) Case {
	c := Case{Kind: "revisions"}
	n := rapid.IntRange(1, 5).Draw(t, "modules")
	shared := rapid.Bool().Draw(t, "shared-namespace")
	for i := 0; i < n; i++ {
		h := Header{Name: rapid.SampledFrom([]string{"foo", "bar"}).Draw(t, "name"), SharedNS: shared}
		k := rapid.IntRange(0, 3).Draw(t, "revisions")
		seen := map[string]bool{}
		for j := 0; j < k; j++ {
			d := rapid.SampledFrom(dates).Draw(t, "date")
			if !seen[d] {
				seen[d] = true
				h.Revisions = append(h.Revisions, d)
			}
		}
		// texts with equal (name, latest revision) are textually identical: the tag is derived from the key
		h.Tag = h.Name + "-" + latest(h.Revisions)
		if dupOf := -1; true {
			for j, e := range c.Headers {
				if e.Name == h.Name && latest(e.Revisions) == latest(h.Revisions) {
					dupOf = j
				}
			}
			if dupOf >= 0 {
				h = c.Headers[dupOf]
			}
		}
		c.Headers = append(c.Headers, h)
	}
	// importers of loaded modules
	ni := rapid.IntRange(0, 3).Draw(t, "importers")
	for i := 0; i < ni; i++ {
		h := c.Headers[rapid.IntRange(0, len(c.Headers)-1).Draw(t, "imported")]
		im := Importer{Name: fmt.Sprintf("imp%d", i), Of: h.Name}
		if l := latest(h.Revisions); l != "" && rapid.Bool().Draw(t, "dated") {
			im.Date = l
		}
		c.Importers = append(c.Importers, im)
	}
	// all permutations for up to 4 texts, else 12 sampled
	idx := make([]int, n)
	for i := range idx {
		idx[i] = i
	}
	if n <= 4 {
		var rec func(k int)
		rec = func(k int) {
			if k == n {
				c.Perm = append(c.Perm, append([]int(nil), idx...))
				return
			}
			for i := k; i < n; i++ {
				idx[k], idx[i] = idx[i], idx[k]
				rec(k + 1)
				idx[k], idx[i] = idx[i], idx[k]
			}
		}
		rec(0)
	} else {
		for i := 0; i < 12; i++ {
			c.Perm = append(c.Perm, rapid.Permutation(idx).Draw(t, "perm"))
		}
	}
	return c
}

func genFiles(t *rapid.T) Case {
	// module names may hold every character of a YANG identifier: letters, digits, '_', '-' and '.'
	w := rapid.SampledFrom([]string{"name", "name", "na.me", "n.a-m_e", "name.v1", "na-me"}).Draw(t, "wanted-name")
	c := Case{Kind: "files", Dirs: rapid.IntRange(1, 3).Draw(t, "dirs"), Want: w}
	c.ViaImp = rapid.Bool().Draw(t, "via-import")
	// (a date is four, two and two digits: whether the calendar knows the day is not the file chooser's business)
	pool := []string{w + ".yang", w + "@2020-01-01.yang", w + "@2021-06-30.yang", w + "@2019-12-31.yang", w + "@2021-06-31.yang", w + "@2019-02-29.yang",
		w + "X@2022-01-01.yang", "X" + w + "@2022-01-01.yang", w + "@2020-1-01.yang", w + "@2023-01-01.yang.bak", w + "@2023-01-01.YANG", w + "-ext@2022-05-05.yang", w + "@2022-01-01x.yang", w + ".yang.orig", w[:len(w)-1] + ".yang", w + "2.yang", w + "@.yang", w + "@20220101.yang",
		// names that differ from the wanted one in letter case only: other modules' files (module names are case-sensitive)
		strings.ToUpper(w[:1]) + w[1:] + ".yang", strings.ToUpper(w) + "@2024-05-05.yang", strings.ToUpper(w[:1]) + w[1:] + "@2024-06-06.yang"}
	if strings.ContainsAny(w, ".-_") {
		// files of modules whose names differ from the wanted one in a punctuation character only; they carry the
		// latest dates, so they would win if they were taken for candidates
		for _, r := range []string{"X", "_", "-", ".", ""} {
			alt := strings.NewReplacer(".", r, "-", r, "_", r).Replace(w)
			if alt != w {
				pool = append(pool, alt+"@2024-02-02.yang", alt+".yang")
			}
		}
		first := strings.IndexAny(w, ".-_")
		for _, r := range []string{"X", "_", "-", "."} {
			alt := w[:first] + r + w[first+1:]
			if alt != w {
				pool = append(pool, alt+"@2024-03-03.yang")
			}
		}
	}
	// a third of the cases: search-path entries of the form dir/... and files in sub-directories. Below a dir/...
	// entry all true candidates lie in one place (the directory itself or one sub-directory, up to two levels
	// down); below a plain entry, files in sub-directories are not candidates at all.
	subs := []string{"", "s1", "s1/s2", "a0", "zz/y"}
	home := make([]string, c.Dirs)
	c.Cwd = rapid.IntRange(0, 4).Draw(t, "first-directory-is-the-current-one") == 0
	if rapid.IntRange(0, 2).Draw(t, "sub-directories") == 0 {
		c.Recurse = make([]bool, c.Dirs)
		for d := range c.Recurse {
			c.Recurse[d] = rapid.Bool().Draw(t, "recursive-entry") && !(c.Cwd && d == 0) // the current directory is searched by itself
			home[d] = rapid.SampledFrom(subs).Draw(t, "candidates-live-in")
		}
	}
	isCand := func(n string) bool {
		return n == w+".yang" || (strings.HasPrefix(n, w+"@") && strings.HasSuffix(n, ".yang") && dateRE(strings.TrimSuffix(strings.TrimPrefix(n, w+"@"), ".yang")))
	}
	n := rapid.IntRange(0, 7).Draw(t, "files")
	seen := map[string]bool{}
	for i := 0; i < n; i++ {
		f := FileSpec{Dir: rapid.IntRange(0, c.Dirs-1).Draw(t, "dir")}
		if rapid.IntRange(0, 2).Draw(t, "true-candidate") == 0 {
			f.Name = rapid.SampledFrom(pool[:6]).Draw(t, "file")
		} else {
			f.Name = rapid.SampledFrom(pool).Draw(t, "file")
		}
		if rapid.IntRange(0, 11).Draw(t, "as-directory") == 0 {
			f.Dir2 = true
		}
		if c.Recurse != nil {
			switch {
			case c.Recurse[f.Dir] && isCand(f.Name) && !f.Dir2:
				f.Sub = home[f.Dir]
			default:
				f.Sub = rapid.SampledFrom(subs).Draw(t, "sub-directory")
			}
		}
		k := fmt.Sprint(f.Dir, f.rel())
		if !seen[k] {
			seen[k] = true
			c.Files = append(c.Files, f)
		}
	}
	c.Retry = rapid.IntRange(0, 3).Draw(t, "retry-after-adding-the-path") == 0 && !c.Cwd
	if c.ViaImp && rapid.IntRange(0, 2).Draw(t, "dated-import") == 0 {
		for _, f := range c.Files {
			if !f.Dir2 && c.searched(f) && strings.HasPrefix(f.Name, w+"@") && strings.HasSuffix(f.Name, ".yang") && dateRE(strings.TrimSuffix(strings.TrimPrefix(f.Name, w+"@"), ".yang")) {
				c.WantDate = strings.TrimSuffix(strings.TrimPrefix(f.Name, w+"@"), ".yang")
			}
		}
	}
	return c
}

// ---- mixed: some revisions loaded, others waiting on the search path ----

func libText(date string) string {
	rev, tag := "", "norev"
	if date != "" {
		rev, tag = " revision "+date+";\n", date
	}
	return fmt.Sprintf("module lib {\n namespace \"urn:lib\";\n prefix l;\n%s grouping g { leaf from-%s { type string; } }\n typedef t { type string; units \"%s\"; }\n identity base-%s;\n}\n", rev, tag, tag, tag)
}

func genMixed(t *rapid.T) Case {
	dates := []string{"2018-01-01", "2019-01-01", "2020-01-01", "2021-01-01"}
	c := Case{Kind: "mixed"}
	for _, d := range dates {
		switch rapid.IntRange(0, 3).Draw(t, "where") {
		case 0:
			c.Loaded = append(c.Loaded, d)
		case 1:
			c.OnDisk = append(c.OnDisk, d)
		}
	}
	if rapid.IntRange(0, 4).Draw(t, "undated-text-loaded") == 0 {
		c.Loaded = append(c.Loaded, "")
	}
	n := rapid.IntRange(1, 3).Draw(t, "importers")
	names := []string{"alpha", "middle", "omega"}
	for i := 0; i < n; i++ {
		im := Importer{Name: names[i], Of: "lib"}
		if rapid.Bool().Draw(t, "dated") {
			im.Date = rapid.SampledFrom(dates).Draw(t, "import-date")
		}
		c.MixedImp = append(c.MixedImp, im)
	}
	k := len(c.Loaded) + len(c.MixedImp)
	for i := 0; i < 3; i++ {
		c.Perm = append(c.Perm, schema.Order(t, k))
	}
	return c
}

func checkMixed(c Case, o *ev.Outcome) {
	root, err := ev.MkdirTemp("verif-c13m-")
	if err != nil {
		panic(err)
	}
	defer os.RemoveAll(root)
	for _, d := range c.OnDisk {
		os.WriteFile(filepath.Join(root, "lib@"+d+".yang"), []byte(libText(d)), 0o644)
	}
	type src struct{ name, text string }
	var srcs []src
	for _, d := range c.Loaded {
		n := "lib.yang"
		if d != "" {
			n = "lib@" + d + ".yang"
		}
		srcs = append(srcs, src{n, libText(d)})
	}
	for _, im := range c.MixedImp {
		d := ""
		if im.Date != "" {
			d = " revision-date " + im.Date + ";"
		}
		srcs = append(srcs, src{im.Name + ".yang", fmt.Sprintf("module %s {\n namespace \"urn:%s\";\n prefix x;\n import lib { prefix l;%s }\n container c { uses l:g; leaf viat { type l:t; } }\n}\n", im.Name, im.Name, d)})
	}
	o.NonTrivial = len(c.Loaded)+len(c.OnDisk) >= 2 && len(c.MixedImp) >= 2
	o.Class(fmt.Sprintf("mixed/loaded-%d-on-disk-%d", len(c.Loaded), len(c.OnDisk)))
	tagOf := func(m *yang.Module) string {
		if m == nil {
			return "<nil>"
		}
		if i := strings.IndexByte(m.FullName(), '@'); i >= 0 {
			return m.FullName()[i+1:]
		}
		return "norev"
	}
	for pi, perm := range c.Perm {
		if len(perm) != len(srcs) {
			continue
		}
		ms := yang.NewModules()
		ms.AddPath(root)
		for _, i := range perm {
			if err := ms.Parse(srcs[i].text, srcs[i].name); err != nil {
				o.Violate("loads", "C13/mixed/load-rejected", "order %v: %s rejected: %v", perm, srcs[i].name, err)
				return
			}
		}
		if errs := ms.Process(); len(errs) > 0 {
			if len(c.Loaded)+len(c.OnDisk) == 0 {
				continue // nothing to import: an error is right
			}
			o.Violate("binds", "C13/mixed/process-fails", "order %v: a revision of lib is loaded or on the search path, yet Process fails: %v", perm, errs)
			return
		}
		if len(c.Loaded)+len(c.OnDisk) == 0 {
			o.Violate("binds", "C13/mixed/missing-import-unreported", "order %v: no lib anywhere, yet Process reports nothing", perm)
			return
		}
		// the latest revision held now
		var held []string
		for k := range ms.Modules {
			if k == "lib" || strings.HasPrefix(k, "lib@") {
				held = append(held, tagOf(ms.Modules[k]))
			}
		}
		sort.Strings(held)
		newest := ""
		for _, h := range held {
			if h != "norev" && h > newest {
				newest = h
			}
		}
		if newest == "" {
			newest = "norev"
		}
		if got := tagOf(ms.Modules["lib"]); got != newest {
			o.Violate("bare-name-latest", "C13/mixed/bare-name-not-latest", "order %v (#%d): the set holds lib revisions %v, the bare name denotes %s", perm, pi, held, got)
			return
		}
		for _, im := range c.MixedImp {
			m := ms.Modules[im.Name]
			if m == nil || len(m.Import) != 1 {
				o.Violate("binds", "C13/mixed/importer-missing", "order %v: importer %s not held", perm, im.Name)
				return
			}
			got := tagOf(m.Import[0].Module)
			want, how := newest, "undated"
			if im.Date != "" {
				how = "dated"
				if ms.Modules["lib@"+im.Date] != nil {
					want = im.Date
				} else {
					want = "" // the named revision is not held: which one stands in is not claimed
				}
			}
			if want != "" && got != want {
				o.Violate("import-binding", "C13/mixed/import-binding/"+how, "order %v (#%d): the set holds lib revisions %v after Process; the %s import of %s (date %q) denotes %s, expected %s", perm, pi, held, how, im.Name, im.Date, got, want)
				return
			}
			// one importer sees one revision: the grouping it uses and the typedef it names come from the module its import denotes
			e := yang.ToEntry(m)
			cc := e.Dir["c"]
			if cc == nil {
				o.Violate("import-binding", "C13/mixed/tree", "order %v: %s has no container c", perm, im.Name)
				return
			}
			var leaves []string
			for k := range cc.Dir {
				if strings.HasPrefix(k, "from-") {
					leaves = append(leaves, strings.TrimPrefix(k, "from-"))
				}
			}
			sort.Strings(leaves)
			units := "?"
			if v := cc.Dir["viat"]; v != nil && v.Type != nil {
				units = v.Type.Units
			}
			if len(leaves) != 1 || leaves[0] != got || units != got {
				o.Violate("import-binding", "C13/mixed/importer-sees-two-revisions/"+how, "order %v (#%d): the import of %s denotes lib %s, but its uses brought %v and its type has units %q (held: %v)", perm, pi, im.Name, got, leaves, units, held)
				return
			}
		}
	}
}

// refsOf collects the top-level typedefs, groupings and identities of m that the given items refer to.
type piece struct {
	td *ymodel.Typedef
	gr *ymodel.Grouping
	id *ymodel.Identity
	nd *ymodel.Node
}

func genSplit(t *rapid.T) Case {
	o := ymodel.DefaultOpts()
	o.MaxModules = 1
	o.Submodules = false
	o.Budget = 26
	whole, _ := schema.Generate(t, o)
	schema.AddIdentities(t, whole, 6)
	m := whole.Modules[0]
	c := Case{Kind: "split", Whole: whole}
	k := rapid.IntRange(1, 3).Draw(t, "submodules")
	split := &ymodel.Set{}
	main := &ymodel.Module{Name: m.Name, Prefix: m.Prefix, Namespace: m.Namespace}
	var subs []*ymodel.Module
	for i := 0; i < k; i++ {
		s := &ymodel.Module{Name: fmt.Sprintf("%s-part%d", m.Name, i+1), IsSub: true, BelongsTo: m.Name, Prefix: m.Prefix}
		subs = append(subs, s)
		main.Includes = append(main.Includes, s.Name)
	}
	r := yref.New(whole)
	// where does each top-level definition go? definitions always move into submodules
	homeT := map[*ymodel.Typedef]int{}
	homeG := map[*ymodel.Grouping]int{}
	homeI := map[string]int{}
	for _, td := range m.Typedefs {
		homeT[td] = rapid.IntRange(0, k-1).Draw(t, "typedef-home")
		subs[homeT[td]].Typedefs = append(subs[homeT[td]].Typedefs, td)
	}
	for _, g := range m.Groupings {
		homeG[g] = rapid.IntRange(0, k-1).Draw(t, "grouping-home")
		subs[homeG[g]].Groupings = append(subs[homeG[g]].Groupings, g)
	}
	for _, id := range m.Identities {
		homeI[id.Name] = rapid.IntRange(0, k-1).Draw(t, "identity-home")
		subs[homeI[id.Name]].Identities = append(subs[homeI[id.Name]].Identities, id)
	}
	nodeHome := map[*ymodel.Node]int{}
	for _, n := range m.Nodes {
		h := rapid.IntRange(-1, k-1).Draw(t, "node-home") // -1: stays in the module
		nodeHome[n] = h
		if h < 0 {
			main.Nodes = append(main.Nodes, n)
		} else {
			subs[h].Nodes = append(subs[h].Nodes, n)
		}
	}
	// includes between submodules: whatever a submodule's content refers to
	need := make([]map[int]bool, k)
	for i := range need {
		need[i] = map[int]bool{}
	}
	var walkBody func(b *ymodel.Body, s yref.Scope, home int)
	refType := func(tr *ymodel.TypeRef, s yref.Scope, home int) {
		var rec func(tr *ymodel.TypeRef)
		rec = func(tr *ymodel.TypeRef) {
			if tr == nil {
				return
			}
			if !(tr.Prefix == "" && yref.Builtins[tr.Name]) {
				if td, _ := r.BindTypedef(s, tr.Prefix, tr.Name); td != nil {
					if h, ok := homeT[td]; ok && h != home {
						need[home][h] = true
					}
				}
			}
			if tr.Base != "" {
				_, name := "", tr.Base
				if i := strings.IndexByte(name, ':'); i >= 0 {
					name = name[i+1:]
				}
				if h, ok := homeI[name]; ok && h != home {
					need[home][h] = true
				}
			}
			for _, u := range tr.Union {
				rec(u)
			}
		}
		rec(tr)
	}
	walkBody = func(b *ymodel.Body, s yref.Scope, home int) {
		for _, td := range b.Typedefs {
			refType(td.Type, s, home)
		}
		for _, g := range b.Groupings {
			walkBody(&g.Body, s.Push(&g.Body), home)
		}
		for _, n := range b.Nodes {
			if n.Kind == ymodel.KUses {
				if g, _ := r.BindGrouping(s, n.Name); g != nil {
					if h, ok := homeG[g]; ok && h != home {
						need[home][h] = true
					}
				}
				continue
			}
			refType(n.Type, s, home)
			walkBody(&n.Body, s.Push(&n.Body), home)
		}
	}
	top := yref.Top(m)
	for _, td := range m.Typedefs {
		refType(td.Type, top, homeT[td])
	}
	for _, g := range m.Groupings {
		walkBody(&g.Body, top.Push(&g.Body), homeG[g])
	}
	for _, n := range m.Nodes {
		if h := nodeHome[n]; h >= 0 {
			walkBody(&ymodel.Body{Nodes: []*ymodel.Node{n}}, top, h)
		}
	}
	for _, id := range m.Identities {
		for _, b := range id.Bases {
			name := b
			if i := strings.IndexByte(name, ':'); i >= 0 {
				name = name[i+1:]
			}
			if h, ok := homeI[name]; ok && h != homeI[id.Name] {
				need[homeI[id.Name]][h] = true
			}
		}
	}
	for i, s := range subs {
		var hs []int
		for h := range need[i] {
			hs = append(hs, h)
		}
		sort.Ints(hs)
		for _, h := range hs {
			s.Includes = append(s.Includes, subs[h].Name)
		}
	}
	split.Modules = append(split.Modules, subs...)
	split.Modules = append(split.Modules, main)
	c.Split = split
	return c
}

func gen(t *rapid.T) Case {
	if rapid.IntRange(0, 9).Draw(t, "mixed-generator") == 0 {
		return genMixed(t)
	}
	switch rapid.IntRange(0, 3).Draw(t, "generator") {
	case 3:
		return genRevSub(t)
	case 0:
		return genRevisions(t)
	case 1:
		return genFiles(t)
	default:
		return genSplit(t)
	}
}

func TestCheck(t *testing.T) {
	ev.Run(t, ev.Spec[Case]{
		ID:    "C13",
		Level: "exploration",
		Rule: "five generators. (e) mixed: revisions 2018-2021 of lib each loaded, waiting as lib@DATE.yang in a search-path directory, or absent, optionally a text without revision; 1-3 importers (alpha, middle, omega) with or without revision-date using lib's grouping and typedef; three load orders, one Process. Oracle: the bare name denotes the latest revision held afterwards, undated imports denote it, dated imports denote their revision when it is held, and what an importer's uses and type bring comes from the module its import denotes. (d) revisions with submodules: 1-3 revisions of one module, each including the submodule sub with or without revision-date, 1-2 texts of sub (with a nested include of a second submodule in a third of the cases), six load orders. Oracle: the tree of every revision holds its own leaf, the leaf of exactly the submodule text its include denotes, and the nested submodule's leaf once. (a) revisions: 1-5 module headers with a name from {foo, bar} and 0-3 revision dates (texts with equal name and latest revision are identical), plus 0-3 importers with and without revision-date; every load permutation for up to 4 texts (24), 12 sampled for 5. Oracle: exactly one text per (name, latest revision) is accepted in every order, the bare key and undated imports denote the latest loaded revision, dated keys and dated imports the exact one. " +
			"(b) files: 1-3 search-path directories (temporary, outside /repo and /verif) with up to 7 files from {name.yang, three name@DATE.yang (the wanted name is one of name, na.me, n.a-m_e, name.v1, na-me; for names with punctuation also files of modules that differ in that character only, with the latest dates), near misses: nameX@.., Xname@.., name@2020-1-01.yang, ...yang.bak, ...YANG, name-ext@.., name@DATEx.yang, name.yang.orig, nam.yang, name2.yang, name@.yang, name@20220101.yang, Name.yang, NAME@DATE.yang; sometimes a directory of that name}; in a third of the cases directories are put on the search path as dir/... (dir and everything below it is searched; all true candidates below such an entry lie in one place, the directory itself or a sub-directory up to two levels down) and files also lie in sub-directories of plain entries, where they are no candidates; every file declares the wanted module with a namespace naming its own path; fetched by Read, by an undated import and by a dated import, in a quarter of the cases after the same fetch was tried (and had to fail) before the directories were put on the search path. Oracle: the module comes from the first directory holding a candidate, name.yang else the latest date (dated import: the exact file); with no candidate the fetch fails. " +
			"(c) split: a generated single module and a random partition of its body into 1-3 submodules (all definitions move, nodes stay or move; submodules include each other where they refer to each other, mutual includes allowed with the ignore-circular option). Oracle: tree, types, attributes and identity lists of the module equal those of the unsplit module. " +
			"Non-trivial = (a) two texts sharing a name or a duplicate, (b) >= 2 files, (c) >= 1 submodule, (d) >= 2 module revisions, (e) >= 2 revisions and >= 2 importers; distinct by case",
		Assumptions: []string{
			"recursive 'dir/...' search order and belongs-to prefixes that differ from the module's prefix are not generated",
			"a dated import is only judged when the file (or loaded module) of exactly that revision exists",
		},
		Check: check,
		Gen:   gen,
	})
}
