// C04 — a clean Process yields proper trees and really means there were no errors.
package c04

import (
	"fmt"
	"sort"
	"strings"
	"testing"

	"github.com/openconfig/goyang/pkg/yang"
	"pgregory.net/rapid"

	"verif/lib/ev"
	"verif/lib/schema"
	"verif/lib/ymodel"
	"verif/lib/yref"
)

type Case struct {
	Set   *ymodel.Set `json:"set"`
	Order []int       `json:"order,omitempty"`
	// StoreUses: the option that keeps the uses statements on the entries is set (the trees are the same)
	StoreUses bool `json:"store_uses,omitempty"`
	// Fetch: these sources are not handed over; they wait in a search-path directory and are fetched by Process
	Fetch []string `json:"fetch,omitempty"`
	// Late: a late problem was planted (augment collision, inapplicable
	// deviation): the set must not process cleanly.
	Late string `json:"late,omitempty"`
	// Wild: statements added without a reference outcome (see addWild).
	Wild []string `json:"wild,omitempty"`
}

func kindName(e *yang.Entry) string {
	if e.Node != nil && e.Node.Statement() != nil && e.Kind != yang.CaseEntry {
		return e.Node.Statement().Keyword
	}
	return strings.ToLower(e.Kind.String())
}

type walker struct {
	o     *ev.Outcome
	seen  map[*yang.Entry]string
	nodes int
	maxCS int
}

func (w *walker) fail(clause, sig, format string, args ...any) {
	if len(w.o.Violations) < 3 {
		w.o.Violate(clause, "C04/"+sig, format, args...)
	}
}

func (w *walker) walk(e *yang.Entry, parent *yang.Entry, path, via string) {
	if e == nil {
		w.fail("proper-tree", "nil-node/"+via, "%s: nil entry", path)
		return
	}
	w.nodes++
	if prev, dup := w.seen[e]; dup {
		w.fail("no-sharing", "shared-node/"+kindName(e)+"/"+via, "the node object at %s is also at %s", path, prev)
		return
	}
	w.seen[e] = path
	if e.Parent != parent {
		pp := "nil"
		if e.Parent != nil {
			pp = e.Parent.Path()
		}
		w.fail("parent-link", "parent-link/"+kindName(e)+"/"+via, "%s: parent link points to %s instead of its holder", path, pp)
	}
	if len(e.Errors) > 0 {
		w.fail("no-recorded-error", "unreported-error/"+via+"/"+errClass(e.Errors[0]), "%s carries a recorded error although processing reported none: %v", path, e.Errors[0])
	}
	if len(e.Augments) > 0 {
		w.fail("no-unapplied-augment", "leftover-augment", "%s still holds %d unapplied augment(s)", path, len(e.Augments))
	}
	kw := kindName(e)
	isLeafKind := e.Kind == yang.LeafEntry
	switch {
	case isLeafKind && e.Type == nil:
		w.fail("kind-consistency", "leaf-without-type/"+kw, "%s is a %s without a resolved type", path, kw)
	case isLeafKind && e.Dir != nil:
		w.fail("kind-consistency", "leaf-with-child-map/"+kw, "%s is a %s with a child map", path, kw)
	case !isLeafKind && e.Dir == nil:
		w.fail("kind-consistency", "no-child-map/"+kw, "%s (%s) has no child map", path, kw)
	case !isLeafKind && e.Type != nil:
		w.fail("kind-consistency", "non-leaf-with-type/"+kw, "%s (%s) has a type", path, kw)
	}
	wantList := kw == "list" || kw == "leaf-list"
	if wantList != (e.ListAttr != nil) {
		w.fail("kind-consistency", "list-attributes/"+kw, "%s (%s): list attributes present=%v", path, kw, e.ListAttr != nil)
	}
	if e.Kind == yang.ChoiceEntry {
		for k, c := range e.Dir {
			if c != nil && c.Kind != yang.CaseEntry {
				w.fail("kind-consistency", "choice-child-not-case/"+kindName(c), "%s/%s: child of a choice is a %s", path, k, kindName(c))
			}
		}
	}
	keys := make([]string, 0, len(e.Dir))
	for k := range e.Dir {
		keys = append(keys, k)
	}
	sort.Strings(keys)
	for _, k := range keys {
		c := e.Dir[k]
		if c != nil && c.Name != k {
			w.fail("key-is-name", "key-name/"+kindName(c), "%s: child filed under %q is named %q", path, k, c.Name)
		}
		w.walk(c, e, path+"/"+k, "child")
	}
	if e.RPC != nil {
		if e.RPC.Input != nil {
			w.walk(e.RPC.Input, e, path+"/input", "rpc-input")
		}
		if e.RPC.Output != nil {
			w.walk(e.RPC.Output, e, path+"/output", "rpc-output")
		}
	}
}

func errClass(err error) string {
	s := err.Error()
	for _, k := range []string{"unknown type", "Duplicate node", "duplicate key", "unknown group", "augment", "bad range", "bad length", "circular"} {
		if strings.Contains(s, k) {
			return strings.ReplaceAll(strings.ToLower(k), " ", "-")
		}
	}
	return "other"
}

func features(set *ymodel.Set, trees map[string]*yref.Tree) (maxSteps int, cls []string) {
	for _, t := range trees {
		for _, x := range yref.Paths(t) {
			if x.CopySteps > maxSteps {
				maxSteps = x.CopySteps
			}
		}
	}
	nsub := 0
	for _, m := range set.Modules {
		if m.IsSub {
			nsub++
		}
	}
	if nsub > 0 {
		cls = append(cls, "with-submodule")
	}
	if len(set.Modules)-nsub > 1 {
		cls = append(cls, "multi-module")
	}
	return
}

func check(c Case) (o ev.Outcome) {
	if c.Set == nil {
		o.OutOfClaim = "empty case"
		return
	}
	srcs := schema.Sources(c.Set, c.Order)
	if len(c.Fetch) > 0 {
		o.Class("one-module-fetched-from-search-path")
	}
	var obs *schema.Observed
	if !ev.Guard(&o, "load+process", func() {
		obs = schema.LoadFetched(srcs, c.Fetch, func(ms *yang.Modules) { ms.ParseOptions.StoreUses = c.StoreUses })
	}) {
		// crashes belong to C01; keep the signature distinct
		for i := range o.Violations {
			o.Violations[i].Sig = "C04/" + o.Violations[i].Sig
		}
		return
	}
	r := yref.New(c.Set)
	trees := r.Expand()
	steps, cls := features(c.Set, trees)
	for _, cl := range cls {
		o.Class(cl)
	}
	o.Class(fmt.Sprintf("copy-steps-%d", min(steps, 4)))
	o.Sample = map[string]any{"late": c.Late, "order": c.Order, "sources": srcs}
	if c.Late != "" {
		o.Class("late/" + c.Late)
		o.NonTrivial = true
		if obs.Clean() {
			o.Violate("clean-means-no-errors", "C04/late-problem-unreported/"+c.Late, "a %s was planted but processing reported no error", c.Late)
		}
		return
	}
	if !obs.Clean() {
		if len(c.Wild) > 0 {
			o.OutOfClaim = "set with invariant-only statements rejected (they need not be valid; the claim starts at a clean Process)"
		} else if len(r.Problems) == 0 {
			o.OutOfClaim = "valid-by-construction set rejected (judged by C06/C07/C09)"
		} else {
			o.OutOfClaim = "set with problems"
		}
		o.Class("not-clean")
		return
	}
	o.Class("clean")
	if c.Set.OlderText() != nil {
		o.Class("older-revision-also-loaded")
	}
	if len(c.Set.Extra) > 0 {
		o.Class("submodule-that-no-module-includes")
	}
	for _, f := range c.Wild {
		o.Class("wild/" + f)
	}
	o.NonTrivial = steps >= 2 || len(c.Wild) > 0
	w := &walker{o: &o, seen: map[*yang.Entry]string{}}
	ev.Guard(&o, "tree walk", func() {
		done := map[*yang.Module]bool{}
		names := make([]string, 0, len(obs.MS.Modules))
		for k := range obs.MS.Modules {
			names = append(names, k)
		}
		sort.Strings(names)
		for _, k := range names {
			m := obs.MS.Modules[k]
			if done[m] {
				continue
			}
			done[m] = true
			root := yang.ToEntry(m)
			w.walk(root, nil, "/"+m.Name, "module-root")
			if errs := root.GetErrors(); len(errs) > 0 {
				w.fail("no-recorded-error", "geterrors-nonempty", "GetErrors() of %s returns %v although processing reported none", m.Name, errs)
			}
		}
		// submodule trees: parent links and errors only (sharing is claimed for modules)
		sw := &walker{o: &o, seen: map[*yang.Entry]string{}}
		snames := make([]string, 0, len(obs.MS.SubModules))
		for k := range obs.MS.SubModules {
			snames = append(snames, k)
		}
		sort.Strings(snames)
		sdone := map[*yang.Module]bool{}
		for _, k := range snames {
			m := obs.MS.SubModules[k]
			if sdone[m] {
				continue
			}
			sdone[m] = true
			sw.walk(yang.ToEntry(m), nil, "/"+m.Name, "submodule-root")
		}
	})
	return o
}

func min(a, b int) int {
	if a < b {
		return a
	}
	return b
}

// plantInRPC makes one leaf below an rpc/action input or output refer to an unknown type.
func plantInRPC(t *rapid.T, set *ymodel.Set) bool {
	var leaves []*ymodel.Node
	for _, m := range set.Modules {
		var walk func(b *ymodel.Body, inIO bool)
		walk = func(b *ymodel.Body, inIO bool) {
			for _, g := range b.Groupings {
				walk(&g.Body, inIO)
			}
			for _, n := range b.Nodes {
				io := inIO || n.Kind == ymodel.KInput || n.Kind == ymodel.KOutput
				if n.Type != nil && io {
					leaves = append(leaves, n)
				}
				walk(&n.Body, io)
			}
		}
		walk(&m.Body, false)
	}
	if len(leaves) == 0 {
		return false
	}
	l := leaves[rapid.IntRange(0, len(leaves)-1).Draw(t, "victim")]
	l.Type = &ymodel.TypeRef{Name: "nosuch"}
	return true
}

// plantBelowRemoved gives a container or list two colliding augments (or one augment that brings a leaf of an
// unknown type) and removes that very node, or a node above it, by a deviation of the same module: the error arises
// while the augment is merged and the node that holds it is gone before processing ends.
func plantBelowRemoved(t *rapid.T, set *ymodel.Set) string {
	r := yref.New(set)
	trees := r.Expand()
	if len(r.Problems) > 0 {
		return ""
	}
	type cand struct {
		from *ymodel.Module
		tg   schema.Target
	}
	var cands []cand
	for _, m := range set.Modules {
		if m.IsSub {
			continue
		}
		for _, tg := range schema.AllNodes(set, trees, m) {
			if (tg.Node.Kind == ymodel.KContainer || tg.Node.Kind == ymodel.KList) && !tg.InOp && !tg.Node.Implicit && !strings.Contains(tg.Path, ":older-") {
				cands = append(cands, cand{m, tg})
			}
		}
	}
	if len(cands) == 0 {
		return ""
	}
	c := cands[rapid.IntRange(0, len(cands)-1).Draw(t, "removed-target")]
	leaf := func(n, typ string) *ymodel.Node {
		return &ymodel.Node{Kind: ymodel.KLeaf, Name: n, Type: &ymodel.TypeRef{Name: typ}}
	}
	kind := "augment-collision"
	if rapid.Bool().Draw(t, "unknown-type-in-augment") {
		kind = "unknown-type-in-augment"
		c.from.Augments = append(c.from.Augments, &ymodel.Augment{Path: c.tg.Path, Body: ymodel.Body{Nodes: []*ymodel.Node{leaf("zz-lost", "nosuch-type")}}})
	} else {
		c.from.Augments = append(c.from.Augments,
			&ymodel.Augment{Path: c.tg.Path, Body: ymodel.Body{Nodes: []*ymodel.Node{leaf("zz-clash", "string")}}},
			&ymodel.Augment{Path: c.tg.Path, Body: ymodel.Body{Nodes: []*ymodel.Node{leaf("zz-clash", "int8")}}})
	}
	// the node itself, or the top-level node above it
	path := c.tg.Path
	if i := strings.Index(path[1:], "/"); i > 0 && rapid.Bool().Draw(t, "remove-the-ancestor") {
		path = path[:i+1]
	}
	c.from.Deviations = append(c.from.Deviations, &ymodel.Deviation{Path: path, Deviates: []*ymodel.Deviate{{Kind: "not-supported"}}})
	return kind + "-below-a-node-that-a-deviation-removes"
}

// addWild adds statements for which there is no reference outcome (C04 needs none: whatever is processed
// cleanly must be a proper tree): augments whose path names the implicit case of a shorthand choice member,
// choices put straight into a choice or brought as shorthand by an augment, deviate not-supported of any node,
// rpc input/output included.
func addWild(t *rapid.T, set *ymodel.Set) []string {
	r := yref.New(set)
	trees := r.Expand()
	if len(r.Problems) > 0 {
		return nil
	}
	var feats []string
	leaf := func(n string) *ymodel.Node {
		return &ymodel.Node{Kind: ymodel.KLeaf, Name: n, Type: &ymodel.TypeRef{Name: "string"}}
	}
	choice := func(n string) *ymodel.Node {
		return &ymodel.Node{Kind: ymodel.KChoice, Name: n, Body: ymodel.Body{Nodes: []*ymodel.Node{
			leaf(n + "a"),
			{Kind: ymodel.KContainer, Name: n + "b", Body: ymodel.Body{Nodes: []*ymodel.Node{leaf(n + "bl")}}},
			{Kind: ymodel.KCase, Name: n + "c", Body: ymodel.Body{Nodes: []*ymodel.Node{leaf(n + "cl")}}},
		}}}
	}
	k := rapid.IntRange(1, 3).Draw(t, "wild")
	for i := 0; i < k; i++ {
		from := set.Modules[rapid.IntRange(0, len(set.Modules)-1).Draw(t, "wild-module")]
		plain := map[*yref.XNode]bool{}
		for _, x := range schema.Targets(set, trees, from) {
			plain[x.Node] = true
		}
		all := schema.AllNodes(set, trees, from)
		pick := func(ok func(schema.Target) bool, label string) *schema.Target {
			var cands []schema.Target
			for _, x := range all {
				if ok(x) {
					cands = append(cands, x)
				}
			}
			if len(cands) == 0 {
				return nil
			}
			return &cands[rapid.IntRange(0, len(cands)-1).Draw(t, label)]
		}
		holder := func(k string) bool {
			switch k {
			case ymodel.KContainer, ymodel.KList, ymodel.KCase, ymodel.KInput, ymodel.KOutput, ymodel.KNotification:
				return true
			}
			return false
		}
		name := fmt.Sprintf("w%d%s", i, strings.ReplaceAll(from.Name, "-", ""))
		switch rapid.SampledFrom([]string{"late-augment", "choice-into-choice", "shorthand-choice", "not-supported"}).Draw(t, "wild-kind") {
		case "late-augment":
			tg := pick(func(x schema.Target) bool {
				return !plain[x.Node] && (holder(x.Node.Kind) || x.Node.Kind == ymodel.KChoice)
			}, "late-target")
			if tg == nil {
				continue
			}
			var body []*ymodel.Node
			switch rapid.IntRange(0, 2).Draw(t, "late-content") {
			case 0:
				body = []*ymodel.Node{leaf(name)}
			case 1:
				body = []*ymodel.Node{choice(name)}
			default:
				body = []*ymodel.Node{{Kind: ymodel.KContainer, Name: name, Body: ymodel.Body{Nodes: []*ymodel.Node{choice(name + "x")}}}}
			}
			from.Augments = append(from.Augments, &ymodel.Augment{Path: tg.Path, Body: ymodel.Body{Nodes: body}})
			feats = append(feats, "augment-through-implicit-case")
		case "choice-into-choice":
			tg := pick(func(x schema.Target) bool { return x.Node.Kind == ymodel.KChoice }, "choice-target")
			if tg == nil {
				continue
			}
			from.Augments = append(from.Augments, &ymodel.Augment{Path: tg.Path, Body: ymodel.Body{Nodes: []*ymodel.Node{choice(name)}}})
			feats = append(feats, "augment-puts-choice-into-choice")
		case "shorthand-choice":
			tg := pick(func(x schema.Target) bool { return plain[x.Node] && holder(x.Node.Kind) }, "holder-target")
			if tg == nil {
				continue
			}
			from.Augments = append(from.Augments, &ymodel.Augment{Path: tg.Path, Body: ymodel.Body{Nodes: []*ymodel.Node{choice(name), leaf(name + "z")}}})
			feats = append(feats, "augment-brings-shorthand-choice")
		default:
			tg := pick(func(x schema.Target) bool { return true }, "deviation-target")
			if tg == nil {
				continue
			}
			switch rapid.IntRange(0, 3).Draw(t, "wild-deviation") {
			case 0:
				// the same removal written twice
				from.Deviations = append(from.Deviations, &ymodel.Deviation{Path: tg.Path, Deviates: []*ymodel.Deviate{{Kind: "not-supported"}, {Kind: "not-supported"}}})
				feats = append(feats, "not-supported-twice/"+tg.Node.Kind)
			case 1:
				// a type for whatever the target is
				from.Deviations = append(from.Deviations, &ymodel.Deviation{Path: tg.Path, Deviates: []*ymodel.Deviate{{Kind: rapid.SampledFrom([]string{"replace", "add"}).Draw(t, "type-deviate"), Type: &ymodel.TypeRef{Name: "string"}}}})
				feats = append(feats, "deviate-type/"+tg.Node.Kind)
			default:
				from.Deviations = append(from.Deviations, &ymodel.Deviation{Path: tg.Path, Deviates: []*ymodel.Deviate{{Kind: "not-supported"}}})
				feats = append(feats, "not-supported/"+tg.Node.Kind)
			}
		}
	}
	return feats
}

func gen(t *rapid.T) Case {
	o := ymodel.DefaultOpts()
	set, _ := schema.Generate(t, o)
	schema.AddAugments(t, set, 0, 4)
	if rapid.IntRange(0, 5).Draw(t, "augment-chain") == 0 {
		// a chain of augments over new modules (or a module and its submodules taking turns), named and written
		// in another order than the chain
		schema.AddAugmentChain(t, set)
	}
	c := Case{Set: set}
	if rapid.IntRange(0, 4).Draw(t, "orphan-submodules") == 0 {
		// a further submodule of the module that the module does not include (a leftover, or one that this revision
		// of the module no longer lists) and that includes one of the module's submodules; its name sorts last
		for _, m := range set.Modules {
			if owner := set.Owner(m); m.IsSub && owner != nil && len(set.Extra) < 2 {
				set.Extra = append(set.Extra, ymodel.Source{Name: "zzz-" + m.Name + ".yang", Text: fmt.Sprintf("submodule zzz-%s {\n  belongs-to %s { prefix %s; }\n  include %s;\n  container zzz-orphan { leaf x { type string; } }\n}\n", m.Name, owner.Name, owner.Prefix, m.Name)})
			}
		}
	}
	if rapid.IntRange(0, 3).Draw(t, "wild") == 0 {
		c.Wild = addWild(t, set)
	}
	if rapid.IntRange(0, 7).Draw(t, "plant-in-rpc") == 0 && plantInRPC(t, set) {
		c.Late = "unknown-type-below-rpc-input-output"
	} else if len(c.Wild) == 0 && rapid.IntRange(0, 9).Draw(t, "plant-below-removed") == 0 {
		c.Late = plantBelowRemoved(t, set)
	}
	if rapid.Bool().Draw(t, "permute") {
		c.Order = schema.Order(t, len(set.Modules))
	}
	c.StoreUses = rapid.IntRange(0, 3).Draw(t, "store-uses") == 0
	c.Fetch = schema.PlanFetch(t, set)
	return c
}

func TestCheck(t *testing.T) {
	ev.Run(t, ev.Spec[Case]{
		ID:    "C04",
		Level: "exploration",
		Rule: "module sets generated valid by construction from the schema model (1-3 modules with imports under arbitrary prefixes, 0-2 submodules each with nested includes, typedefs and groupings at every scope from a three-name pool, uses nested to depth 3 across modules and submodules, containers, lists, leaves, leaf-lists, choices with explicit and shorthand cases, anydata/anyxml, rpc/action/notification with and without input/output, augments chained across modules) in model or permuted load order; a quarter of the sets further carry statements for which only the invariant is the oracle (augments whose path names the implicit case of a shorthand choice member, choices put straight into a choice or brought as shorthand members by an augment, deviate not-supported (also written twice) and deviate replace/add type of any node including rpc input/output); in a fifth of the sets an older revision of one module (with a shorthand choice, an augment of its own and an rpc) is loaded as well; plus sets with a planted late problem (an unknown type below rpc/action input or output; two augments colliding on a child name, or an augment bringing a leaf of an unknown type, on a node that a deviate not-supported of the same module then removes, itself or through its top-level ancestor). " +
			"Oracle when Process() is clean: full walk of every module tree over Dir and RPC input/output: key = child name, parent link = holder (input/output -> rpc/action), every *Entry met once (no sharing between places, uses or modules), kind/child map/list attributes/type mutually consistent, every child of a choice a case, no augment left, no node with a recorded error, GetErrors() empty; with a planted late problem Process() must report an error. " +
			"Non-trivial = clean set whose trees contain a node that went through >= 2 copy/merge steps (uses in uses, uses+augment, include+uses; known from the model), or that carries one of the invariant-only statements, or a planted late problem; distinct by (set, order)",
		Assumptions: []string{
			"submodule trees are walked for parent links, consistency and errors but are not part of the sharing clause",
			"sets that goyang rejects although they are valid by construction are left to C06/C07/C09",
		},
		Check: check,
		Gen:   gen,
		Risky: true,
	})
}
