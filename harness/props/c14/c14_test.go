// C14 — enum values and bit positions follow RFC 7950 9.6.4.2 / 9.7.4.2.
package c14

import (
	"fmt"
	"math/big"
	"sort"
	"strings"
	"testing"

	"github.com/openconfig/goyang/pkg/yang"
	"pgregory.net/rapid"

	"verif/lib/ev"
	"verif/lib/numref"
)

type Case struct {
	Kind    string          `json:"kind"` // "enum" | "bits"
	Via     string          `json:"via"`  // "api" | "module" | "typedef"
	Members []numref.Member `json:"members"`
}

var (
	enumMin = big.NewInt(-1 << 31)
	enumMax = big.NewInt(1<<31 - 1)
	bitMin  = big.NewInt(0)
	bitMax  = big.NewInt(1<<32 - 1)
)

func seqString(ms []numref.Member) string {
	p := make([]string, len(ms))
	for i, m := range ms {
		p[i] = m.String()
	}
	return strings.Join(p, " ")
}

func moduleText(c Case) string {
	var b strings.Builder
	b.WriteString("module m { namespace \"urn:m\"; prefix m;\n")
	body := func() {
		if c.Kind == "enum" {
			b.WriteString("type enumeration {\n")
			for _, m := range c.Members {
				if m.Explicit {
					fmt.Fprintf(&b, "  enum %s { value %s; }\n", m.Name, m.Value)
				} else {
					fmt.Fprintf(&b, "  enum %s;\n", m.Name)
				}
			}
		} else {
			b.WriteString("type bits {\n")
			for _, m := range c.Members {
				if m.Explicit {
					fmt.Fprintf(&b, "  bit %s { position %s; }\n", m.Name, m.Value)
				} else {
					fmt.Fprintf(&b, "  bit %s;\n", m.Name)
				}
			}
		}
		b.WriteString("}\n")
	}
	if c.Via == "typedef" {
		b.WriteString("typedef t {\n")
		body()
		b.WriteString("}\nleaf l { type t; }\n")
	} else if c.Via == "union-member" {
		// the type is the second member of its name in a union (after a sound one), and a member of a nested union
		first := "type enumeration { enum zz-first; }"
		if c.Kind == "bits" {
			first = "type bits { bit zz-first; }"
		}
		b.WriteString("leaf l {\n type union {\n " + first + "\n")
		body()
		b.WriteString(" type union { type string; " + first + " }\n }\n}\n")
	} else {
		b.WriteString("leaf l {\n")
		body()
		b.WriteString("}\n")
	}
	b.WriteString("}\n")
	return b.String()
}

func check(c Case) (o ev.Outcome) {
	min, max := enumMin, enumMax
	if c.Kind == "bits" {
		min, max = bitMin, bitMax
	}
	o.Key = c.Kind + "|" + c.Via + "|" + seqString(c.Members)
	o.Sample = map[string]any{"kind": c.Kind, "via": c.Via, "members": seqString(c.Members)}
	if len(c.Members) == 0 {
		o.OutOfClaim = "empty member sequence"
		return
	}
	if c.Via == "api-continued" {
		checkContinued(c, &o, min, max)
		return
	}
	strictAssign, strictBad, strictWhy := numref.Numbering(c.Members, min, max, true)
	lenAssign, lenBad, lenWhy := numref.Numbering(c.Members, min, max, c.Kind == "enum")
	verdict := "may"
	switch {
	case strictBad < 0:
		verdict = "valid"
	case lenBad >= 0:
		verdict = "invalid/" + lenWhy
	default:
		verdict = "may/" + strictWhy // bits with a repeated position: the property does not say
	}
	_ = strictAssign
	o.Class(c.Kind + "/" + c.Via + "/" + strings.SplitN(verdict, "/", 2)[0])
	if lenBad >= 0 {
		o.Class("invalid/" + lenWhy)
	}
	nExplicit, nImplicit := 0, 0
	for _, m := range c.Members {
		if m.Explicit {
			nExplicit++
		} else {
			nImplicit++
		}
	}
	o.NonTrivial = len(c.Members) >= 2 && nImplicit >= 1 && (nExplicit >= 1 || verdict != "valid") || strings.HasPrefix(verdict, "invalid")

	var et *yang.EnumType
	accepted := false
	what := ""
	switch c.Via {
	case "api":
		ok := ev.Guard(&o, "EnumType.Set/SetNext", func() {
			if c.Kind == "enum" {
				et = yang.NewEnumType()
			} else {
				et = yang.NewBitfield()
			}
			accepted = true
			for i, m := range c.Members {
				var err error
				if m.Explicit {
					v, _ := new(big.Int).SetString(m.Value, 10)
					if v == nil || !v.IsInt64() {
						o.OutOfClaim = "explicit value not expressible through the int64 API"
						return
					}
					err = et.Set(m.Name, v.Int64())
				} else {
					err = et.SetNext(m.Name)
				}
				if err != nil {
					accepted = false
					what = fmt.Sprintf("member #%d (%s): %v", i, m, err)
					if lenBad < 0 || i < lenBad {
						if strictBad >= 0 && i >= strictBad {
							return // a "may" rejection
						}
						o.Violate("valid-accepted", "C14/"+c.Kind+"/api/spurious-error/"+memberClass(c.Members, i, min, max), "sequence [%s]: %s, but every member up to there is valid (expected value %s)", seqString(c.Members), what, expectStr(lenAssign, i))
					}
					return
				}
				if lenBad >= 0 && i == lenBad {
					o.Violate("invalid-rejected", "C14/"+c.Kind+"/api/accepted-invalid/"+lenWhy+"/"+memberClass(c.Members, i, min, max), "sequence [%s]: member #%d (%s) accepted although %s", seqString(c.Members), i, m, lenWhy)
					return
				}
			}
		})
		if !ok || o.OutOfClaim != "" || len(o.Violations) > 0 {
			return
		}
	default:
		text := moduleText(c)
		var perr error
		var errs []error
		ok := ev.Guard(&o, "load module with enumeration/bits", func() {
			ms := yang.NewModules()
			perr = ms.Parse(text, "m.yang")
			if perr == nil {
				errs = ms.Process()
			}
			if perr == nil && len(errs) == 0 {
				accepted = true
				l := yang.ToEntry(ms.Modules["m"]).Dir["l"]
				if l != nil && l.Type != nil {
					ty := l.Type
					if c.Via == "union-member" {
						// the second member of the union (the first is the sound one)
						if len(ty.Type) >= 2 {
							ty = ty.Type[1]
						} else {
							ty = nil
						}
					}
					if ty != nil {
						if c.Kind == "enum" {
							et = ty.Enum
						} else {
							et = ty.Bit
						}
					}
				}
			}
		})
		if !ok {
			return
		}
		what = fmt.Sprintf("%v %v", perr, errs)
		if accepted && et == nil {
			o.Violate("result-present", "C14/"+c.Kind+"/"+c.Via+"/no-result", "sequence [%s] processed cleanly but the leaf has no %s type information", seqString(c.Members), c.Kind)
			return
		}
		switch {
		case !accepted && verdict == "valid":
			o.Violate("valid-accepted", "C14/"+c.Kind+"/module/spurious-error/"+firstDiffClass(c.Members, min, max), "valid sequence [%s] rejected: %s", seqString(c.Members), what)
			return
		case accepted && lenBad >= 0:
			o.Violate("invalid-rejected", "C14/"+c.Kind+"/module/accepted-invalid/"+lenWhy+"/"+memberClass(c.Members, lenBad, min, max), "sequence [%s] accepted although member #%d (%s): %s", seqString(c.Members), lenBad, c.Members[lenBad], lenWhy)
			return
		}
	}
	if !accepted {
		return
	}
	// accepted: the maps are the reference assignment
	ev.Guard(&o, "EnumType views", func() {
		want := map[string]int64{}
		for i, m := range c.Members {
			want[m.Name] = lenAssign[i].Int64()
		}
		nm := et.NameMap()
		for i, m := range c.Members {
			got, ok := nm[m.Name]
			if !ok || got != want[m.Name] {
				o.Violate("assignment", "C14/"+c.Kind+"/"+c.Via+"/wrong-value/"+memberClass(c.Members, i, min, max), "sequence [%s]: %s got %d (present=%v), RFC numbering gives %d", seqString(c.Members), m.Name, got, ok, want[m.Name])
				return
			}
			if !et.IsDefined(m.Name) || et.Value(m.Name) != want[m.Name] {
				o.Violate("assignment", "C14/"+c.Kind+"/"+c.Via+"/accessors-disagree", "sequence [%s]: IsDefined/Value of %s disagree with NameMap", seqString(c.Members), m.Name)
			}
		}
		if len(nm) != len(want) {
			o.Violate("assignment", "C14/"+c.Kind+"/"+c.Via+"/extra-names", "sequence [%s]: NameMap has %d entries, expected %d", seqString(c.Members), len(nm), len(want))
		}
		names := et.Names()
		wn := make([]string, 0, len(want))
		for n := range want {
			wn = append(wn, n)
		}
		sort.Strings(wn)
		if fmt.Sprint(names) != fmt.Sprint(wn) {
			o.Violate("views", "C14/"+c.Kind+"/"+c.Via+"/names-view", "Names() = %v, expected %v", names, wn)
		}
		vals := et.Values()
		wv := make([]int64, 0, len(want))
		for _, v := range want {
			wv = append(wv, v)
		}
		sort.Slice(wv, func(i, j int) bool { return wv[i] < wv[j] })
		if fmt.Sprint(vals) != fmt.Sprint(wv) {
			o.Violate("views", "C14/"+c.Kind+"/"+c.Via+"/values-view", "Values() = %v, expected %v", vals, wv)
		}
		if c.Kind == "enum" {
			vm := et.ValueMap()
			if len(vm) != len(nm) {
				o.Violate("inverse", "C14/enum/"+c.Via+"/views-not-inverse", "NameMap has %d entries, ValueMap %d", len(nm), len(vm))
			}
			for n, v := range nm {
				if vm[v] != n || et.Name(v) != n {
					o.Violate("inverse", "C14/enum/"+c.Via+"/views-not-inverse", "NameMap[%s]=%d but ValueMap[%d]=%q", n, v, v, vm[v])
				}
			}
		}
	})
	return o
}

// checkContinued: the member sequence is fed to Set/SetNext to its end, also past rejected members (as the library
// itself does when it resolves a type statement, so as to report every bad member). A rejected member is assigned
// nothing: the members after it are numbered as if it had not been written. Enumerations only (for bits the
// property leaves a repeated position open).
func checkContinued(c Case, o *ev.Outcome, min, max *big.Int) {
	if c.Kind != "enum" {
		o.OutOfClaim = "continued sequences are judged for enumerations only"
		return
	}
	names := map[string]bool{}
	used := map[string]bool{}
	var highest *big.Int
	want := map[string]int64{}
	expect := make([]*big.Int, len(c.Members)) // nil = rejected
	rejected := 0
	for i, m := range c.Members {
		var v *big.Int
		switch {
		case names[m.Name]:
		case m.Explicit:
			if x, ok := new(big.Int).SetString(m.Value, 10); ok && x.Cmp(min) >= 0 && x.Cmp(max) <= 0 {
				v = x
			}
		case highest == nil:
			v = new(big.Int)
		case highest.Cmp(max) < 0:
			v = new(big.Int).Add(highest, big.NewInt(1))
		}
		if v != nil && used[v.String()] {
			v = nil
		}
		if v == nil {
			rejected++
			continue
		}
		names[m.Name], used[v.String()] = true, true
		if highest == nil || v.Cmp(highest) > 0 {
			highest = v
		}
		expect[i] = v
		want[m.Name] = v.Int64()
	}
	o.Class("enum/api-continued")
	if rejected > 0 && rejected < len(c.Members) {
		o.Class("enum/api-continued/members-after-a-rejected-one")
	}
	o.NonTrivial = rejected > 0 && len(want) > 0
	ev.Guard(o, "EnumType.Set/SetNext past rejected members", func() {
		et := yang.NewEnumType()
		for i, m := range c.Members {
			var err error
			if m.Explicit {
				v, _ := new(big.Int).SetString(m.Value, 10)
				if v == nil || !v.IsInt64() {
					o.OutOfClaim = "explicit value not expressible through the int64 API"
					return
				}
				err = et.Set(m.Name, v.Int64())
			} else {
				err = et.SetNext(m.Name)
			}
			if (err == nil) != (expect[i] != nil) {
				o.Violate("continued-sequence", "C14/enum/api-continued/wrong-verdict/"+memberClass(c.Members, i, min, max), "sequence [%s] fed to its end: member #%d (%s) returned %v, expected value %v (nil = rejected)", seqString(c.Members), i, m, err, expect[i])
				return
			}
		}
		nm := et.NameMap()
		if len(nm) != len(want) {
			o.Violate("continued-sequence", "C14/enum/api-continued/names", "sequence [%s] fed to its end: NameMap %v, expected %v", seqString(c.Members), nm, want)
			return
		}
		for n, v := range want {
			if got, ok := nm[n]; !ok || got != v || et.Name(v) != n {
				o.Violate("continued-sequence", "C14/enum/api-continued/wrong-value", "sequence [%s] fed to its end: %s = %d (present %v), expected %d; NameMap %v", seqString(c.Members), n, got, ok, v, nm)
				return
			}
		}
	})
}

func expectStr(assign []*big.Int, i int) string {
	if i < len(assign) {
		return assign[i].String()
	}
	return "?"
}

// memberClass describes member i relative to what precedes it, for signatures.
func memberClass(ms []numref.Member, i int, min, max *big.Int) string {
	m := ms[i]
	if m.Explicit {
		v, _ := new(big.Int).SetString(m.Value, 10)
		switch {
		case v == nil:
			return "explicit-unparseable"
		case v.Cmp(min) < 0:
			if !v.IsInt64() {
				return "explicit-below-int64"
			}
			return "explicit-below-min"
		case v.Cmp(max) > 0:
			return "explicit-above-max"
		case v.Cmp(max) == 0:
			return "explicit-at-max"
		case v.Sign() < 0:
			return "explicit-negative"
		}
		return "explicit"
	}
	if i == 0 {
		return "implicit-first"
	}
	// highest earlier value
	assign, _, _ := numref.Numbering(ms[:i], min, max, false)
	var hi *big.Int
	for _, v := range assign {
		if hi == nil || v.Cmp(hi) > 0 {
			hi = v
		}
	}
	switch {
	case hi == nil:
		return "implicit"
	case hi.Cmp(max) == 0:
		return "implicit-after-max"
	case hi.Sign() < 0:
		return "implicit-after-negative-highest"
	case hi.Cmp(big.NewInt(1<<31-1)) >= 0:
		return "implicit-after-2^31-1-or-more"
	}
	return "implicit"
}

func firstDiffClass(ms []numref.Member, min, max *big.Int) string {
	// class of the last implicit member, the usual culprit
	for i := len(ms) - 1; i >= 0; i-- {
		if !ms[i].Explicit {
			return memberClass(ms, i, min, max)
		}
	}
	return "all-explicit"
}

var valueGrid = []string{"", "0", "1", "2", "-1", "-5", "2147483646", "2147483647", "2147483648", "-2147483648", "-2147483649", "4294967294", "4294967295", "4294967296", "-18446744073709551615"}
var namePool = []string{"a", "b", "c", "d", "e", "f"}

func enumerate(tier string, shard, shards int, emit func(Case) bool) bool {
	maxLen := 3
	if tier == "thorough" {
		maxLen = 4
	}
	idx := 0
	ok := true
	var rec func(ms []numref.Member, maxName int)
	rec = func(ms []numref.Member, maxName int) {
		if !ok {
			return
		}
		if len(ms) > 0 {
			idx++
			if idx%shards == shard {
				for _, kind := range []string{"enum", "bits"} {
					for _, via := range []string{"api", "module", "api-continued"} {
						if via == "api-continued" && kind != "enum" {
							continue
						}
						cp := append([]numref.Member(nil), ms...)
						if !emit(Case{Kind: kind, Via: via, Members: cp}) {
							ok = false
							return
						}
					}
				}
			}
		}
		if len(ms) == maxLen {
			return
		}
		// restricted-growth names: every duplicate pattern once, up to renaming
		for ni := 0; ni <= maxName+1 && ni < len(namePool); ni++ {
			for _, v := range valueGrid {
				m := numref.Member{Name: namePool[ni], Explicit: v != "", Value: v}
				nm := maxName
				if ni > maxName {
					nm = ni
				}
				rec(append(ms, m), nm)
			}
		}
	}
	rec(nil, -1)
	return ok
}

func gen(t *rapid.T) Case {
	c := Case{Kind: rapid.SampledFrom([]string{"enum", "bits"}).Draw(t, "kind"), Via: rapid.SampledFrom([]string{"api", "module", "module", "typedef", "api-continued", "union-member"}).Draw(t, "via")}
	n := rapid.IntRange(1, 12).Draw(t, "n")
	min, max := enumMin, enumMax
	if c.Kind == "bits" {
		min, max = bitMin, bitMax
	}
	dupNames := rapid.IntRange(0, 4).Draw(t, "dupNames") == 0
	for i := 0; i < n; i++ {
		var name string
		if dupNames {
			name = rapid.SampledFrom(namePool).Draw(t, "name")
		} else {
			name = fmt.Sprintf("m%d", i)
		}
		if (c.Via == "api" || c.Via == "api-continued") && rapid.IntRange(0, 7).Draw(t, "empty-name") == 0 {
			// Set takes any string for a name, the empty one too (Name() answers "" for it as for no member at all)
			name = ""
		}
		m := numref.Member{Name: name}
		switch rapid.IntRange(0, 9).Draw(t, "shape") {
		case 0, 1, 2, 3:
			// implicit
		case 4, 5:
			m.Explicit, m.Value = true, rapid.SampledFrom(valueGrid[1:]).Draw(t, "grid")
		case 6:
			m.Explicit, m.Value = true, fmt.Sprint(rapid.Int64Range(-3000000000, 5000000000).Draw(t, "val"))
			if rapid.IntRange(0, 3).Draw(t, "beyond-64-bit") == 0 {
				// values at and just past the 64-bit limits, where a wrapped number lands back among the small ones
				m.Value = rapid.SampledFrom([]string{"18446744073709551616", "18446744073709551617", "18446744073709551618", "18446744073709551619", "18446744073709551620", "-18446744073709551616", "-18446744073709551617", "-18446744073709551619", "9223372036854775808", "-9223372036854775809", "36893488147419103232", "36893488147419103233", "18446744073709551615"}).Draw(t, "far-value")
			}
		case 7:
			m.Explicit, m.Value = true, fmt.Sprint(rapid.Int64Range(-10, 40).Draw(t, "small"))
		default:
			// relative to the highest value so far
			assign, _, _ := numref.Numbering(c.Members, min, max, false)
			hi := big.NewInt(0)
			for _, v := range assign {
				if v.Cmp(hi) > 0 {
					hi = v
				}
			}
			d := rapid.Int64Range(-2, 2).Draw(t, "delta")
			m.Explicit, m.Value = true, new(big.Int).Add(hi, big.NewInt(d)).String()
		}
		if c.Via == "api" && m.Explicit {
			if v, _ := new(big.Int).SetString(m.Value, 10); !v.IsInt64() {
				m.Value = "7"
			}
		}
		c.Members = append(c.Members, m)
	}
	return c
}

func TestCheck(t *testing.T) {
	ev.Run(t, ev.Spec[Case]{
		ID:    "C14",
		Level: "exploration",
		Rule: "a case is (enum|bits, member sequence, route); exhaustive part: every sequence up to the length bound over the 15-value grid {implicit,0,1,2,-1,-5,2^31-2,2^31-1,2^31,-2^31,-2^31-1,2^32-2,2^32-1,2^32,-(2^64-1)} and every duplicate-name pattern (restricted-growth naming), each through NewEnumType/NewBitfield+Set/SetNext and through module text + Process; " +
			"random part: up to 12 members, values from the grid, random, small, or within 2 of the highest so far, also through a typedef. Oracle: RFC 7950 9.6.4.2/9.7.4.2 fold in big integers. " +
			"Non-trivial = at least two members with an implicit one after/among explicit ones, or an invalid sequence; distinct by (kind, route, sequence)",
		Assumptions: []string{
			"a bits type that repeats a position is neither required to be accepted nor to be rejected (the property lists uniqueness for enum values only); if accepted its numbering is judged",
			"explicit values outside int64 can only be offered through module text",
			"API route stops at the first error; module route judges acceptance and the final maps only",
		},
		Check:     check,
		Gen:       gen,
		Enumerate: enumerate,
		EnumNote: func(tier string) string {
			if tier == "thorough" {
				return "all member sequences of length <= 4 over 15 values x all duplicate-name patterns x {enum,bits} x {api,module}"
			}
			return "all member sequences of length <= 3 over 15 values x all duplicate-name patterns x {enum,bits} x {api,module}"
		},
	})
}
