// C09 — type names bind lexically and derived types inherit the whole chain.
package c09

import (
	"fmt"
	"strings"
	"testing"

	"pgregory.net/rapid"

	"verif/lib/canon"
	"verif/lib/ev"
	"verif/lib/schema"
	"verif/lib/ymodel"
	"verif/lib/yref"
)

type Case struct {
	Set   *ymodel.Set `json:"set"`
	Order []int       `json:"order,omitempty"`
	Fault string      `json:"fault,omitempty"`
}

func countTypes(set *ymodel.Set) (typedefs, chains, foreign, scoped int) {
	for _, m := range set.Modules {
		var walk func(b *ymodel.Body, depth int)
		refd := func(t *ymodel.TypeRef) {
			if t == nil {
				return
			}
			if !yref.Builtins[t.Name] || t.Prefix != "" {
				chains++
				if t.Prefix != "" && t.Prefix != m.Prefix {
					foreign++
				}
			}
		}
		walk = func(b *ymodel.Body, depth int) {
			for _, td := range b.Typedefs {
				typedefs++
				if depth > 0 {
					scoped++
				}
				refd(td.Type)
			}
			for _, g := range b.Groupings {
				walk(&g.Body, depth+1)
			}
			for _, n := range b.Nodes {
				refd(n.Type)
				walk(&n.Body, depth+1)
			}
		}
		walk(&m.Body, 0)
	}
	return
}

func check(c Case) (o ev.Outcome) {
	if c.Set == nil {
		o.OutOfClaim = "empty case"
		return
	}
	srcs := schema.Sources(c.Set, c.Order)
	o.Sample = map[string]any{"fault": c.Fault, "order": c.Order, "sources": srcs}
	var obs *schema.Observed
	if !ev.Guard(&o, "load+process", func() { obs = schema.Load(srcs, nil) }) {
		for i := range o.Violations {
			o.Violations[i].Sig = "C09/" + o.Violations[i].Sig
		}
		return
	}
	r := yref.New(c.Set)
	trees := r.Expand()
	td, chains, foreign, scoped := countTypes(c.Set)
	if foreign > 0 {
		o.Class("foreign-prefix-reference")
	}
	if scoped > 0 {
		o.Class("scoped-typedef")
	}
	if c.Fault != "" {
		o.Class("fault/" + c.Fault)
		o.NonTrivial = true
		if len(r.Problems) == 0 {
			o.OutOfClaim = "planted fault not seen by the reference (harness)"
			return
		}
		if obs.Clean() {
			o.Violate("bad-reference-is-error", "C09/fault-unreported/"+c.Fault, "a type reference that is %s was planted (%v) but processing reported no error", c.Fault, r.Problems)
		}
		return
	}
	if len(r.Problems) > 0 {
		o.OutOfClaim = "generated set has problems by the reference (harness): " + strings.Fields(r.Problems[0])[0] + " " + strings.Fields(r.Problems[0])[1]
		return
	}
	o.NonTrivial = td >= 2 && chains >= 2
	if !obs.Clean() {
		first := ""
		if len(obs.PErrs) > 0 {
			first = obs.PErrs[0].Error()
		} else {
			first = obs.Errs[0].Error()
		}
		cls := schema.ErrClass(first)
		if cls != "unknown-type" && cls != "unknown-prefix" && cls != "circular" && cls != "bad-range" && cls != "bad-length" {
			o.OutOfClaim = "valid set rejected for a reason outside type resolution (" + cls + ")"
			return
		}
		where := "plain"
		if foreign > 0 {
			where = "with-foreign-prefix-reference"
		}
		o.Violate("valid-reference-resolves", "C09/valid-rejected/"+cls+"/"+where, "every type reference of the set binds (lexically) to a typedef or built-in type, yet: %s", obs.ErrText())
		return
	}
	ev.Guard(&o, "compare", func() {
		schema.CompareModules(&o, c.Set, obs, trees, canon.DiffOpts{Types: true, Defaults: true}, "C09", "resolved-type")
	})
	return o
}

// plant puts one bad type reference into the set.
func plant(t *rapid.T, set *ymodel.Set) string {
	// collect type references
	type site struct {
		t *ymodel.TypeRef
		b *ymodel.Body
		m *ymodel.Module
	}
	var sites []site
	var bodies []*ymodel.Body
	for _, m := range set.Modules {
		var walk func(b *ymodel.Body)
		walk = func(b *ymodel.Body) {
			bodies = append(bodies, b)
			for _, td := range b.Typedefs {
				sites = append(sites, site{td.Type, b, m})
			}
			for _, g := range b.Groupings {
				walk(&g.Body)
			}
			for _, n := range b.Nodes {
				if n.Type != nil {
					sites = append(sites, site{n.Type, b, m})
				}
				switch n.Kind {
				case ymodel.KContainer, ymodel.KList, ymodel.KRPC, ymodel.KAction, ymodel.KInput, ymodel.KOutput, ymodel.KNotification:
					walk(&n.Body) // kinds that can hold typedefs
				case ymodel.KChoice, ymodel.KCase:
					// descend without offering the body itself as a typedef site
					for _, ch := range n.Nodes {
						if ch.Type != nil {
							sites = append(sites, site{ch.Type, &n.Body, m})
						}
					}
				}
			}
		}
		walk(&m.Body)
	}
	kind := rapid.SampledFrom([]string{"unknown", "unknown", "unknown-prefix", "cyclic", "cyclic", "prefixed-built-in-name"}).Draw(t, "fault")
	switch kind {
	case "prefixed-built-in-name":
		// a built-in name behind a prefix is the name of a typedef, and there is none of that name
		if len(sites) == 0 {
			return ""
		}
		s := sites[rapid.IntRange(0, len(sites)-1).Draw(t, "site")]
		pfx := []string{s.m.Prefix, "zz"}
		for _, im := range s.m.Imports {
			pfx = append(pfx, im.Prefix)
		}
		*s.t = ymodel.TypeRef{Prefix: rapid.SampledFrom(pfx).Draw(t, "prefix"), Name: rapid.SampledFrom([]string{"string", "uint8", "boolean", "int32", "empty", "binary"}).Draw(t, "built-in")}
		return kind
	case "unknown", "unknown-prefix":
		if len(sites) == 0 {
			return ""
		}
		s := sites[rapid.IntRange(0, len(sites)-1).Draw(t, "site")]
		*s.t = ymodel.TypeRef{Name: "nosuch"}
		if kind == "unknown-prefix" {
			s.t.Prefix = "zz"
		}
		return kind
	default:
		b := bodies[rapid.IntRange(0, len(bodies)-1).Draw(t, "body")]
		n := rapid.IntRange(1, 3).Draw(t, "cycle-length")
		// the names of the cycle: fresh ones, or (where the scope does not define them itself) names from the
		// pool that outer scopes or the module may define too: the cycle then shadows a sound typedef
		names := make([]string, n)
		for i := range names {
			names[i] = fmt.Sprintf("cy%d", i)
		}
		label := fmt.Sprintf("cyclic-%d", n)
		if rapid.Bool().Draw(t, "cycle-shadows") {
			pool := []string{"ta", "tb", "tc"}
			taken := map[string]bool{}
			for _, td := range b.Typedefs {
				taken[td.Name] = true
			}
			k := 0
			for _, p := range pool {
				if !taken[p] && k < n {
					names[k] = p
					k++
				}
			}
			if k > 0 {
				label += "-shadowing"
			}
		}
		for i := 0; i < n; i++ {
			next := &ymodel.TypeRef{Name: names[(i+1)%n]}
			if rapid.IntRange(0, 3).Draw(t, "cycle-through-union") == 0 {
				next = &ymodel.TypeRef{Name: "union", Union: []*ymodel.TypeRef{{Name: "string"}, next}}
			}
			b.Typedefs = append(b.Typedefs, &ymodel.Typedef{Name: names[i], Type: next})
		}
		if rapid.Bool().Draw(t, "cycle-used") {
			b.Nodes = append(b.Nodes, &ymodel.Node{Kind: ymodel.KLeaf, Name: "cyleaf", Type: &ymodel.TypeRef{Name: names[0]}})
		}
		return label
	}
}

func gen(t *rapid.T) Case {
	o := ymodel.DefaultOpts()
	o.RPC = rapid.Bool().Draw(t, "with-rpc")
	o.Choices = rapid.Bool().Draw(t, "with-choices")
	o.Posix = true // posix-pattern statements of openconfig-extensions in string types
	set, _ := schema.Generate(t, o)
	c := Case{Set: set}
	if rapid.IntRange(0, 5).Draw(t, "plant") == 0 {
		c.Fault = plant(t, set)
	}
	if rapid.Bool().Draw(t, "permute") {
		c.Order = schema.Order(t, len(set.Modules))
	}
	return c
}

func TestCheck(t *testing.T) {
	ev.Run(t, ev.Spec[Case]{
		ID:    "C09",
		Level: "exploration",
		Rule: "module sets from the schema model with typedefs at module, submodule, container, list, grouping, rpc, action, input, output and notification scope, all named from a pool of three (heavy shadowing), chained through restrictions across module and submodule borders, referenced without prefix, with the own prefix and with foreign prefixes drawn from a pool of four (so one module's prefix for another equals a third module's own prefix); every typedef carries a unique units mark (and often a default) so a wrong binding is observable; one sixth of the cases plant an unknown name, an unknown prefix, a built-in name behind an own, imported or unknown prefix, or a derivation cycle of length 1-3 (also through union members, and under names that an outer scope or the module defines soundly). " +
			"Oracle: reference binder + type folding over the model (never goyang): for each leaf and leaf-list the resolved type's kind, name, units, default, fraction-digits, patterns in order, enum/bit maps, path, union members, range/length sets and DefaultValues() equal the folded reference, compared after the whole set is processed; a valid set must not be rejected by type resolution; a planted fault must yield an error. " +
			"Non-trivial = >= 2 typedefs and >= 2 references to typedefs, or a planted fault; distinct by (set, order)",
		Assumptions: []string{
			"inside a submodule only its own and its included submodules' definitions are referenced (YANG 1.0/1.1 differ on the rest)",
			"derived types never re-list enum/bit members; union members are pairwise different kinds; patterns are unique strings",
		},
		Check: check,
		Gen:   gen,
		Risky: true,
	})
}
