// C10 — range and length restrictions denote the written set and only narrow.
package c10

import (
	"fmt"
	"math/big"
	"strings"
	"testing"

	"github.com/openconfig/goyang/pkg/yang"
	"pgregory.net/rapid"

	"verif/lib/ev"
	"verif/lib/numref"
)

// Case: a built-in type and a derivation chain of restriction strings.
// Via "module": link i is a typedef (the last one sits on the leaf), observed
// after Process. Via "api": a single string through ParseRangesInt/Decimal.
type Case struct {
	Type  string   `json:"type"`
	FD    int      `json:"fd,omitempty"`
	Chain []string `json:"chain"`
	Via   string   `json:"via"`
	// Place: where the last link of a module chain stands: "" a leaf's type, "leaf-list", or a member of a
	// union: "union-first" (before a string member), "union-after-plain" (after an unrestricted member of the
	// same type), "union-typedef" (the same inside a typedef that the leaf names).
	Place string `json:"place,omitempty"`
}

func bi(s string) *big.Int { v, _ := new(big.Int).SetString(s, 10); return v }

var builtin = map[string]numref.Iv{
	"int8":   {big.NewInt(-128), big.NewInt(127)},
	"int16":  {big.NewInt(-32768), big.NewInt(32767)},
	"int32":  {big.NewInt(-2147483648), big.NewInt(2147483647)},
	"int64":  {bi("-9223372036854775808"), bi("9223372036854775807")},
	"uint8":  {big.NewInt(0), big.NewInt(255)},
	"uint16": {big.NewInt(0), big.NewInt(65535)},
	"uint32": {big.NewInt(0), big.NewInt(4294967295)},
	"uint64": {big.NewInt(0), bi("18446744073709551615")},
	// lengths
	"string": {big.NewInt(0), bi("18446744073709551615")},
	"binary": {big.NewInt(0), bi("18446744073709551615")},
	// mantissa bounds
	"decimal64": {bi("-9223372036854775808"), bi("9223372036854775807")},
}

var intTypes = []string{"int8", "int16", "int32", "int64", "uint8", "uint16", "uint32", "uint64"}

func isLength(t string) bool { return t == "string" || t == "binary" }

func moduleText(c Case, k int) string {
	var b strings.Builder
	b.WriteString("module m { namespace \"urn:m\"; prefix m;\n")
	stmt := "range"
	if isLength(c.Type) {
		stmt = "length"
	}
	base := func(i int) string {
		if i == 0 {
			return c.Type
		}
		return fmt.Sprintf("t%d", i)
	}
	for i := 0; i < k; i++ {
		extra := ""
		if i == 0 && c.Type == "decimal64" {
			extra = fmt.Sprintf("fraction-digits %d; ", c.FD)
		}
		body := fmt.Sprintf("type %s { %s%s \"%s\"; }", base(i), extra, stmt, c.Chain[i])
		if i == k-1 {
			plain := fmt.Sprintf("type %s;", base(i))
			if extra != "" {
				plain = fmt.Sprintf("type %s { %s}", base(i), extra)
			}
			switch c.Place {
			case "leaf-list":
				fmt.Fprintf(&b, " leaf-list l { %s }\n", body)
			case "union-first":
				fmt.Fprintf(&b, " leaf l { type union { %s type boolean; } }\n", body)
			case "union-after-plain":
				fmt.Fprintf(&b, " leaf l { type union { %s %s } }\n", plain, body)
			case "union-typedef":
				fmt.Fprintf(&b, " typedef u { type union { type boolean; %s %s } }\n leaf l { type u; }\n", plain, body)
			default:
				fmt.Fprintf(&b, " leaf l { %s }\n", body)
			}
		} else {
			fmt.Fprintf(&b, " typedef t%d { %s }\n", i+1, body)
		}
	}
	b.WriteString("}\n")
	return b.String()
}

func fromY(r yang.YangRange) numref.Set {
	var s numref.Set
	for _, p := range r {
		s = append(s, numref.Iv{Lo: numref.Mantissa(p.Min.Value, p.Min.Negative), Hi: numref.Mantissa(p.Max.Value, p.Max.Negative)})
	}
	return s
}

func kindClass(c Case) string {
	switch {
	case c.Type == "decimal64":
		return "decimal64"
	case isLength(c.Type):
		return "length"
	case c.Type == "uint64":
		return "uint64"
	}
	return "int"
}

var u64max = bi("18446744073709551615")

func feature(parts numref.Set) string {
	for _, p := range parts {
		if p.Lo.Cmp(u64max) == 0 || p.Hi.Cmp(u64max) == 0 {
			return "touches-2^64-1"
		}
	}
	return "plain"
}

// judge compares goyang's verdict/result for one link with the reference.
// It returns the normalised set of the link (nil when the chain ends here).
func judge(c Case, o *ev.Outcome, link int, s string, parent numref.Set, haveParent bool, accepted bool, got yang.YangRange, errText string) numref.Set {
	decimal := c.Type == "decimal64"
	p := numref.ParseRange(s, c.FD, decimal, parent)
	pre := fmt.Sprintf("C10/%s/%s", c.Via, kindClass(c))
	where := fmt.Sprintf("%s link %d %q (parent %v)", c.Type, link+1, s, parent)
	if !p.Syntax {
		o.Class("verdict/invalid-syntax")
		if accepted {
			o.Violate("invalid-rejected", pre+"/accepted-invalid/syntax", "%s: not a range expression, yet accepted as %v", where, got)
		}
		return nil
	}
	if p.Excess {
		o.OutOfClaim = "literal with more fraction digits than the type has"
		return nil
	}
	if p.UsesMinMax && !haveParent {
		o.OutOfClaim = "min/max without a parent set"
		return nil
	}
	if numref.Inverted(p.Parts) {
		o.Class("verdict/invalid-inverted")
		if accepted {
			o.Violate("invalid-rejected", pre+"/accepted-invalid/bounds-out-of-order", "%s: a part has lo > hi, yet accepted as %v", where, got)
		}
		return nil
	}
	w := numref.Normalize(p.Parts)
	if haveParent && !numref.Subset(w, parent) {
		o.Class("verdict/invalid-not-subset")
		if accepted {
			o.Violate("invalid-rejected", pre+"/accepted-invalid/widens-parent/"+feature(p.Parts), "%s: admits values outside the parent set, yet accepted as %v", where, got)
		}
		return nil
	}
	if !haveParent {
		// direct API: the value domain of Number itself bounds what can be written
		lim := u64max
		if decimal {
			lim = bi("9223372036854775807")
		}
		for _, iv := range p.Parts {
			if iv.Lo.CmpAbs(lim) > 0 || iv.Hi.CmpAbs(lim) > 0 {
				o.OutOfClaim = "bound outside the 64-bit number domain offered to the direct API"
				return nil
			}
		}
	}
	asc := numref.Ascending(p.Parts)
	if asc {
		o.Class("verdict/valid")
	} else {
		o.Class("verdict/valid(overlapping-or-unordered-parts)")
	}
	if !accepted {
		// every part is in order and the written set lies within the parent: the set "written in the
		// statement" exists and must be presented sorted and coalesced, whatever the order of the parts
		order := "ascending-parts"
		if !asc {
			order = "unordered-or-overlapping-parts"
		}
		o.Violate("valid-accepted", pre+"/rejected-valid/"+order+"/"+feature(p.Parts), "%s: every part has lo <= hi and the written set lies within the parent, yet rejected: %s", where, errText)
		return nil
	}
	// accepted: result clauses
	g := fromY(got)
	for _, r := range got {
		if int(r.Min.FractionDigits) != c.FD || int(r.Max.FractionDigits) != c.FD {
			o.Violate("fraction-digits", pre+"/wrong-fraction-digits", "%s: result %v carries fraction-digits %d/%d, type has %d", where, got, r.Min.FractionDigits, r.Max.FractionDigits, c.FD)
			break
		}
	}
	if !numref.Equal(numref.Normalize(g), w) {
		o.Violate("denotes-written-set", pre+"/wrong-set/"+feature(p.Parts), "%s: result %v denotes %v, written set is %v", where, got, numref.Normalize(g), w)
	} else if !numref.IsNormal(g) {
		o.Violate("presentation", pre+"/not-coalesced/"+feature(p.Parts), "%s: result %v is not sorted, disjoint and coalesced (canonical %v)", where, g, w)
	}
	return w
}

func check(c Case) (o ev.Outcome) {
	bt, ok := builtin[c.Type]
	if !ok || len(c.Chain) == 0 {
		o.OutOfClaim = "unknown type or empty chain"
		return
	}
	if c.Type == "decimal64" && (c.FD < 1 || c.FD > 18) || c.Type != "decimal64" && c.FD != 0 {
		o.OutOfClaim = "fraction-digits outside 1..18"
		return
	}
	o.Key = fmt.Sprintf("%s|%d|%s|%q|%s", c.Type, c.FD, c.Via, c.Chain, c.Place)
	o.Sample = map[string]any{"type": c.Type, "fraction-digits": c.FD, "chain": c.Chain, "via": c.Via, "place": c.Place}
	if c.Place != "" {
		if c.Via != "module" {
			o.OutOfClaim = "place without module"
			return
		}
		o.Class("place/" + c.Place)
	}
	o.Class(c.Via + "/" + kindClass(c))
	o.Class(fmt.Sprintf("chain-length-%d", len(c.Chain)))
	o.NonTrivial = true
	for _, s := range c.Chain {
		if strings.ContainsAny(s, "\"\\") {
			o.OutOfClaim = "restriction string with quote or backslash"
			return
		}
	}

	if c.Via == "api" {
		s := c.Chain[0]
		var got yang.YangRange
		var err error
		if !ev.Guard(&o, "ParseRanges", func() {
			if c.Type == "decimal64" {
				got, err = yang.ParseRangesDecimal(s, uint8(c.FD))
			} else {
				got, err = yang.ParseRangesInt(s)
			}
		}) {
			return
		}
		judge(c, &o, 0, s, nil, false, err == nil, got, fmt.Sprint(err))
		return
	}

	parent := numref.Set{bt}
	for k := 1; k <= len(c.Chain); k++ {
		text := moduleText(c, k)
		if k < len(c.Chain) && c.Place != "" {
			// earlier links are judged with the last of them as a plain leaf
			cc := c
			cc.Place = ""
			text = moduleText(cc, k)
		}
		var perr error
		var errs []error
		var got yang.YangRange
		accepted := false
		if !ev.Guard(&o, "load module with restriction chain", func() {
			ms := yang.NewModules()
			perr = ms.Parse(text, "m.yang")
			if perr == nil {
				errs = ms.Process()
			}
			if perr == nil && len(errs) == 0 {
				l := yang.ToEntry(ms.Modules["m"]).Dir["l"]
				if l == nil || l.Type == nil {
					o.Violate("result-present", "C10/module/no-leaf-type", "clean process but leaf has no type: %s", text)
					return
				}
				accepted = true
				yt := l.Type
				if k == len(c.Chain) && strings.HasPrefix(c.Place, "union") {
					// the restricted member is the first or the last one (if it equals the plain member before it, the
					// two count as one member, with the same value set)
					if yt.Kind != yang.Yunion || len(yt.Type) == 0 {
						o.Violate("result-present", "C10/module/no-union-members", "clean process but the union has no members: %s", text)
						return
					}
					if c.Place == "union-first" {
						yt = yt.Type[0]
					} else {
						yt = yt.Type[len(yt.Type)-1]
					}
				}
				if isLength(c.Type) {
					got = yt.Length
				} else {
					got = yt.Range
				}
			}
		}) || len(o.Violations) > 0 {
			return
		}
		w := judge(c, &o, k-1, c.Chain[k-1], parent, true, accepted, got, fmt.Sprintf("%v %v", perr, errs))
		if w == nil || len(o.Violations) > 0 || o.OutOfClaim != "" {
			return
		}
		if !numref.Subset(w, parent) {
			o.Violate("only-narrows", "C10/module/"+kindClass(c)+"/widened", "link %d widened its parent", k)
			return
		}
		parent = w
	}
	return o
}

// lit renders a mantissa as a canonical literal at fd fraction digits.
func lit(m *big.Int, fd int, trim bool) string {
	if fd == 0 {
		return m.String()
	}
	neg := m.Sign() < 0
	d := new(big.Int).Abs(m).String()
	for len(d) <= fd {
		d = "0" + d
	}
	ip, fp := d[:len(d)-fd], d[len(d)-fd:]
	if trim {
		fp = strings.TrimRight(fp, "0")
	}
	s := ip
	if fp != "" {
		s += "." + fp
	}
	if neg && strings.Trim(s, "0.") != "" {
		s = "-" + s
	}
	return s
}

// boundGrid: boundary literals relative to the type and the parent set.
func boundGrid(typ string, fd int, parent numref.Set, rich bool) []string {
	bt := builtin[typ]
	seen := map[string]bool{}
	var out []string
	add := func(s string) {
		if !seen[s] {
			seen[s] = true
			out = append(out, s)
		}
	}
	addM := func(m *big.Int) { add(lit(m, fd, fd > 0 && m.Bit(0) == 0)) }
	add("min")
	add("max")
	one := big.NewInt(1)
	near := func(m *big.Int) {
		addM(new(big.Int).Sub(m, one))
		addM(m)
		addM(new(big.Int).Add(m, one))
	}
	near(bt.Lo)
	near(bt.Hi)
	if fd == 0 {
		near(big.NewInt(0))
		if bt.Lo.Sign() < 0 {
			add("-0") // a valid spelling of 0
		}
	} else {
		addM(big.NewInt(0))
		addM(numref.Pow10(fd))
		addM(new(big.Int).Neg(numref.Pow10(fd)))
		// bounds written short (as integers) whose value lies far beyond the type at high fraction-digits:
		// about twice and ten times the decimal64 maximum and more, where a wrapped product looks innocent
		for _, v := range []string{"2", "10", "20", "93", "100", "1844674407370955162", "3689348814741910324", "10000000000000000000"} {
			m := new(big.Int).Mul(bi(v), numref.Pow10(fd))
			addM(m)
			if rich {
				addM(new(big.Int).Neg(m))
			}
		}
	}
	if rich {
		for _, p := range parent {
			near(p.Lo)
			near(p.Hi)
		}
		for _, s := range []string{"2147483647", "2147483648", "4294967295", "4294967296", "9223372036854775807", "9223372036854775808", "18446744073709551614", "18446744073709551615", "18446744073709551616"} {
			v := bi(s)
			if fd == 0 {
				addM(v)
			}
		}
	}
	return out
}

func partsOver(g []string) []string {
	var parts []string
	for _, a := range g {
		parts = append(parts, a)
	}
	for _, a := range g {
		for _, b := range g {
			parts = append(parts, a+".."+b)
		}
	}
	return parts
}

func enumerate(tier string, shard, shards int, emit func(Case) bool) bool {
	idx := 0
	mine := func() bool { idx++; return idx%shards == shard }
	type tf struct {
		t  string
		fd int
	}
	types := []tf{}
	for _, t := range intTypes {
		types = append(types, tf{t, 0})
	}
	types = append(types, tf{"string", 0}, tf{"decimal64", 1}, tf{"decimal64", 18})
	if tier == "thorough" {
		types = append(types, tf{"binary", 0})
		for fd := 2; fd <= 17; fd++ {
			types = append(types, tf{"decimal64", fd})
		}
	}
	for _, ty := range types {
		g := boundGrid(ty.t, ty.fd, numref.Set{builtin[ty.t]}, false)
		parts := partsOver(g)
		// one-part strings, module and api
		for _, p := range parts {
			if !mine() {
				continue
			}
			if !emit(Case{Type: ty.t, FD: ty.fd, Chain: []string{p}, Via: "module"}) {
				return false
			}
			if !isLength(ty.t) && !strings.Contains(p, "m") {
				if !emit(Case{Type: ty.t, FD: ty.fd, Chain: []string{p}, Via: "api"}) {
					return false
				}
			}
		}
		// two-part strings
		for _, p := range parts {
			if !mine() {
				continue
			}
			for _, q := range parts {
				if !emit(Case{Type: ty.t, FD: ty.fd, Chain: []string{p + "|" + q}, Via: "module"}) {
					return false
				}
			}
		}
		// parent/child pairs of single-part restrictions; the child grid is relative to the parent part
		for _, p := range parts {
			if !mine() {
				continue
			}
			pp := numref.ParseRange(p, ty.fd, ty.t == "decimal64", numref.Set{builtin[ty.t]})
			if !pp.Syntax || numref.Inverted(pp.Parts) || !numref.Subset(numref.Normalize(pp.Parts), numref.Set{builtin[ty.t]}) {
				continue
			}
			cg := boundGrid(ty.t, ty.fd, numref.Normalize(pp.Parts), true)
			for _, q := range partsOver(cg) {
				if !emit(Case{Type: ty.t, FD: ty.fd, Chain: []string{p, q}, Via: "module"}) {
					return false
				}
			}
		}
	}
	return true
}

var broken = []string{"-+5", "+-5", "++5", "-+5..5", "min..-+5", "1..+-2", "-", "+", "- 5", "0...5", ".5", "1.", "0..1.", "-.5..0", "", " ", "|", "1|", "|1", "1||2", "1..", "..5", "1...5", "1..2..3", "abc", "1a", "mix", "--1", "1 2", "1.2.3", "..", "1..|2", "min..", "maximum", "1,2", "1-2", "1 .. 2 |", "0..1|..|3"}

func gen(t *rapid.T) Case {
	c := Case{Via: "module"}
	switch rapid.IntRange(0, 9).Draw(t, "kind") {
	case 0, 1, 2, 3:
		c.Type = rapid.SampledFrom(intTypes).Draw(t, "int")
	case 4:
		c.Type = "uint64"
	case 5:
		c.Type = rapid.SampledFrom([]string{"string", "binary"}).Draw(t, "len")
	default:
		c.Type = "decimal64"
		c.FD = rapid.IntRange(1, 18).Draw(t, "fd")
	}
	if !isLength(c.Type) && rapid.IntRange(0, 5).Draw(t, "api") == 0 {
		c.Via = "api"
	}
	n := rapid.IntRange(1, 4).Draw(t, "links")
	if c.Via == "api" {
		n = 1
	} else {
		c.Place = rapid.SampledFrom([]string{"", "", "", "", "", "leaf-list", "union-first", "union-after-plain", "union-typedef"}).Draw(t, "place")
	}
	bt := builtin[c.Type]
	parent := numref.Set{bt}
	decimal := c.Type == "decimal64"
	for i := 0; i < n; i++ {
		if i >= 1 && rapid.IntRange(0, 5).Draw(t, "repeat-earlier") == 0 {
			// the very text of an earlier link, now under a (usually narrower) parent
			s := c.Chain[rapid.IntRange(0, i-1).Draw(t, "earlier")]
			c.Chain = append(c.Chain, s)
			pr := numref.ParseRange(s, c.FD, decimal, parent)
			if !pr.Syntax || pr.Excess || numref.Inverted(pr.Parts) {
				break
			}
			w := numref.Normalize(pr.Parts)
			if len(w) == 0 || !numref.Subset(w, parent) {
				break
			}
			parent = w
			continue
		}
		if rapid.IntRange(0, 24).Draw(t, "broken") == 0 {
			c.Chain = append(c.Chain, rapid.SampledFrom(broken).Draw(t, "brokenString"))
			break
		}
		g := boundGrid(c.Type, c.FD, parent, true)
		nparts := rapid.IntRange(1, 5).Draw(t, "parts")
		mode := rapid.IntRange(0, 9).Draw(t, "mode") // 0..5 valid by construction, 6..8 one bound replaced by a grid value, 9 wild
		var ps []string
		// pick returns a value >= from inside the parent set and the end of the parent part it lies in (nil: none left)
		pick := func(label string, from *big.Int) (v, partHi *big.Int) {
			var cands []numref.Iv
			for _, p := range parent {
				if p.Hi.Cmp(from) >= 0 {
					cands = append(cands, p)
				}
			}
			if len(cands) == 0 {
				return nil, nil
			}
			if len(cands) > 2 {
				cands = cands[:2]
			}
			p := cands[rapid.IntRange(0, len(cands)-1).Draw(t, label+"-part")]
			lo := p.Lo
			if from.Cmp(lo) > 0 {
				lo = from
			}
			span := new(big.Int).Sub(p.Hi, lo)
			var off *big.Int
			if rapid.IntRange(0, 2).Draw(t, label+"-near") > 0 {
				off = big.NewInt(int64(rapid.IntRange(0, 12).Draw(t, label+"-off")))
			} else {
				off = new(big.Int).SetUint64(rapid.Uint64().Draw(t, label+"-off64"))
			}
			off.Mod(off, new(big.Int).Add(span, big.NewInt(1)))
			return new(big.Int).Add(lo, off), p.Hi
		}
		from := new(big.Int).Set(parent[0].Lo)
		for j := 0; j < nparts; j++ {
			lo, partHi := pick(fmt.Sprintf("lo%d", j), from)
			if lo == nil {
				break
			}
			hi := lo
			if rapid.IntRange(0, 2).Draw(t, "single") > 0 {
				hi, _ = pick(fmt.Sprintf("hi%d", j), lo)
				if hi.Cmp(partHi) > 0 {
					hi = partHi
				}
			}
			los, his := lit(lo, c.FD, rapid.Bool().Draw(t, "trimlo")), lit(hi, c.FD, rapid.Bool().Draw(t, "trimhi"))
			if c.Via != "api" {
				if j == 0 && lo.Cmp(parent[0].Lo) == 0 && rapid.Bool().Draw(t, "useMin") {
					los = "min"
				}
				if hi.Cmp(parent[len(parent)-1].Hi) == 0 && rapid.Bool().Draw(t, "useMax") {
					his = "max"
				}
			}
			sep := rapid.SampledFrom([]string{"..", " .. ", ".. ", " ..", "\t..\t"}).Draw(t, "dots")
			if lo.Cmp(hi) == 0 && rapid.Bool().Draw(t, "asSingle") {
				ps = append(ps, los)
			} else {
				ps = append(ps, los+sep+his)
			}
			from = new(big.Int).Add(hi, big.NewInt(int64(rapid.IntRange(1, 3).Draw(t, "gap"))))
		}
		if len(ps) == 0 {
			ps = []string{lit(parent[0].Lo, c.FD, false)}
		}
		gridBound := func(label string) string {
			s := rapid.SampledFrom(g).Draw(t, label)
			if c.Via == "api" && (s == "min" || s == "max") {
				s = "0"
			}
			return s
		}
		switch {
		case mode >= 9:
			// wild: every part from the grid
			ps = ps[:0]
			for j := 0; j < nparts; j++ {
				if rapid.Bool().Draw(t, "wsingle") {
					ps = append(ps, gridBound("wlo"))
				} else {
					ps = append(ps, gridBound("wlo")+".."+gridBound("whi"))
				}
			}
		case mode >= 6:
			j := rapid.IntRange(0, len(ps)-1).Draw(t, "victim")
			b := strings.SplitN(ps[j], "..", 2)
			k := rapid.IntRange(0, len(b)-1).Draw(t, "side")
			b[k] = gridBound("replacement")
			ps[j] = strings.Join(b, "..")
		}
		if rapid.IntRange(0, 14).Draw(t, "shuffle") == 0 && len(ps) > 1 {
			ps[0], ps[len(ps)-1] = ps[len(ps)-1], ps[0]
		}
		bar := rapid.SampledFrom([]string{"|", " | ", "| ", " |", "  |\t"}).Draw(t, "bar")
		s := strings.Join(ps, bar)
		if rapid.IntRange(0, 9).Draw(t, "pad") == 0 {
			s = " " + s + " "
		}
		c.Chain = append(c.Chain, s)
		pr := numref.ParseRange(s, c.FD, decimal, parent)
		if !pr.Syntax || pr.Excess || numref.Inverted(pr.Parts) {
			break
		}
		w := numref.Normalize(pr.Parts)
		if len(w) == 0 || !numref.Subset(w, parent) {
			break
		}
		parent = w
	}
	return c
}

func TestCheck(t *testing.T) {
	ev.Run(t, ev.Spec[Case]{
		ID:    "C10",
		Level: "exploration",
		Rule: "a case is (built-in type, fraction-digits, chain of 1..4 range/length strings, route). Exhaustive part: for each type, every 1- and 2-part string over the boundary grid {min,max,type min/max +-1, 0 +-1} against the built-in parent, and every (parent part, child part) pair with the child grid taken relative to the parent part and the 2^31/2^32/2^63/2^64 neighbourhood; " +
			"random part: chains with 1..5 parts per link, bounds from the grid relative to the current parent set or random inside it, optional blanks, trimmed/untrimmed decimal literals, and structurally broken strings. Each link is evaluated through typedef chains in module text (Entry.Type.Range/Length after Process) or directly through ParseRangesInt/ParseRangesDecimal. " +
			"Oracle: big-integer interval sets (written set W, parent P): syntax error, lo>hi or W not within P => must be rejected; otherwise must be accepted; if accepted: set equals W, sorted, disjoint, coalesced, right fraction-digits, within P. Every judged case is non-trivial; distinct by (type, fd, route, chain)",
		Assumptions: []string{
			"overlapping or descending parts are accepted by the library (it documents sorting and coalescing its input); a restriction whose parts each have lo <= hi and whose set lies within the parent must therefore be accepted whatever the order of its parts",
			"literals goyang reads but YANG does not define (hex, octal, underscores, leading +, -0) and literals with more fraction digits than the type are never generated in judged classes",
			"min/max are not offered to the direct API (it has no parent set)",
		},
		Check:     check,
		Gen:       gen,
		Enumerate: enumerate,
		EnumNote: func(tier string) string {
			if tier == "thorough" {
				return "8 integer types, string, binary, decimal64 at fraction-digits 1..18: all 1-/2-part strings over the type grid; all parent/child single-part pairs"
			}
			return "8 integer types, string, decimal64 at fraction-digits 1 and 18: all 1-/2-part strings over the type grid; all parent/child single-part pairs"
		},
	})
}
