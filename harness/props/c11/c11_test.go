// C11 — each identity lists exactly its transitive derivations, once, in fixed order.
package c11

import (
	"fmt"
	"sort"
	"strings"
	"testing"

	"github.com/openconfig/goyang/pkg/yang"
	"pgregory.net/rapid"

	"verif/lib/canon"
	"verif/lib/ev"
	"verif/lib/schema"
	"verif/lib/ymodel"
	"verif/lib/yref"
)

type Case struct {
	Set    *ymodel.Set `json:"set"`
	Orders [][]int     `json:"orders,omitempty"`
	Fault  string      `json:"fault,omitempty"`
	Reruns int         `json:"reruns,omitempty"`
}

func idKey(id *yang.Identity) string { return canon.OwnerName(id) + ":" + id.Name }

// observe returns, per identity key, the ordered Values list, plus problems.
func observe(ms *yang.Modules, set *ymodel.Set, o *ev.Outcome) (map[string][]string, map[string]*yang.Identity) {
	out := map[string][]string{}
	objs := map[string]*yang.Identity{}
	done := map[*yang.Module]bool{}
	for _, reg := range []map[string]*yang.Module{ms.Modules, ms.SubModules} {
		names := make([]string, 0, len(reg))
		for k := range reg {
			names = append(names, k)
		}
		sort.Strings(names)
		for _, k := range names {
			m := reg[k]
			if done[m] {
				continue
			}
			done[m] = true
			if m.Kind() == "module" && m != ms.Modules[m.Name] {
				continue // the older revision that is loaded beside the set: nothing of the set refers to it
			}
			for _, id := range m.Identity {
				key := idKey(id)
				if _, dup := out[key]; dup {
					continue
				}
				var vals []string
				for _, v := range id.Values {
					vals = append(vals, idKey(v))
				}
				out[key] = vals
				objs[key] = id
			}
			// the module entry exposes the same identity objects
			e := yang.ToEntry(m)
			for i, id := range e.Identities {
				if i < len(m.Identity) && id != m.Identity[i] {
					o.Violate("identity-objects", "C11/entry-identities-differ", "ToEntry(%s).Identities[%d] is not the module's identity object", m.Name, i)
				}
			}
		}
	}
	return out, objs
}

func check(c Case) (o ev.Outcome) {
	if c.Set == nil {
		o.OutOfClaim = "empty case"
		return
	}
	orders := c.Orders
	if len(orders) == 0 {
		orders = [][]int{nil}
	}
	reruns := c.Reruns
	if reruns < 1 {
		reruns = 1
	}
	r := yref.New(c.Set)
	want := r.IdentityClosure()
	trees := r.Expand()
	o.Sample = map[string]any{"fault": c.Fault, "orders": orders, "sources": schema.Sources(c.Set, nil)}
	nid, edges, multi, ties := 0, 0, 0, 0
	byName := map[string]int{}
	for _, m := range c.Set.Modules {
		for _, id := range m.Identities {
			nid++
			edges += len(id.Bases)
			if len(id.Bases) > 1 {
				multi++
			}
			byName[id.Name]++
		}
	}
	for _, n := range byName {
		if n > 1 {
			ties++
		}
	}
	if multi > 0 {
		o.Class("multiple-bases")
	}
	if ties > 0 {
		o.Class("equal-names-in-different-modules")
	}
	if c.Fault != "" {
		o.Class("fault/" + c.Fault)
		if len(r.Problems) == 0 {
			o.OutOfClaim = "planted fault not seen by the reference (harness)"
			return
		}
		o.NonTrivial = true
	} else {
		if len(r.Problems) > 0 {
			o.OutOfClaim = "generated set has problems by the reference (harness): " + strings.Fields(r.Problems[0])[0]
			return
		}
		o.NonTrivial = nid >= 3 && edges >= 2
	}
	var firstOrder map[string][]string
	for oi, ord := range orders {
		for rep := 0; rep < reruns; rep++ {
			srcs := schema.Sources(c.Set, ord)
			var obs *schema.Observed
			if !ev.Guard(&o, "load+process", func() { obs = schema.Load(srcs, nil) }) {
				for i := range o.Violations {
					o.Violations[i].Sig = "C11/" + o.Violations[i].Sig
				}
				return
			}
			if c.Fault != "" {
				if obs.Clean() {
					o.Violate("bad-base-reported", "C11/fault-unreported/"+c.Fault, "planted: %s (%v); load order %v: processing reported no error", c.Fault, r.Problems, ord)
					return
				}
				continue
			}
			if !obs.Clean() {
				cls := schema.ErrClass(obs.ErrText())
				if cls != "identity" {
					o.OutOfClaim = "valid set rejected for a reason outside identities (" + cls + ")"
					return
				}
				o.Violate("valid-bases-resolve", "C11/valid-rejected", "every base of the set names an identity visible through the declaring module's imports, yet: %s", obs.ErrText())
				return
			}
			var got map[string][]string
			var objs map[string]*yang.Identity
			if !ev.Guard(&o, "read identities", func() { got, objs = observe(obs.MS, c.Set, &o) }) || len(o.Violations) > 0 {
				return
			}
			for key, w := range want {
				g, ok := got[key]
				if !ok {
					o.Violate("closure", "C11/identity-missing", "identity %s is not among the loaded identities", key)
					return
				}
				seen := map[string]bool{}
				for _, v := range g {
					if seen[v] {
						o.Violate("listed-once", "C11/duplicate-in-values", "identity %s lists %s twice: %v", key, v, g)
						return
					}
					seen[v] = true
					if v == key {
						o.Violate("never-itself", "C11/lists-itself", "identity %s lists itself: %v", key, g)
						return
					}
				}
				gs := append([]string(nil), g...)
				sort.Strings(gs)
				if fmt.Sprint(gs) != fmt.Sprint(w) {
					what := "missing-derivation"
					if len(gs) > len(w) {
						what = "extra-derivation"
					}
					o.Violate("closure", "C11/closure/"+what, "identity %s lists %v, the identities that reach it through base statements are %v", key, gs, w)
					return
				}
			}
			if firstOrder == nil {
				firstOrder = got
			} else {
				for key, g := range got {
					if fmt.Sprint(g) != fmt.Sprint(firstOrder[key]) {
						cls := "plain"
						if ties > 0 {
							cls = "with-equal-names"
						}
						o.Violate("fixed-order", "C11/order-varies/"+cls, "identity %s lists %v in one run and %v in another (load order #%d %v, rerun %d)", key, firstOrder[key], g, oi, ord, rep)
						return
					}
				}
			}
			// identityref leaves point at the very identity their base names
			for _, m := range c.Set.Modules {
				if m.IsSub {
					continue
				}
				e := yang.ToEntry(obs.MS.Modules[m.Name])
				for p, x := range yref.Paths(trees[m.Name]) {
					if x.Type != nil && x.Type.Kind == "union" && strings.HasPrefix(x.Name, "idu") {
						// a union of identityrefs keeps every member whose base is another identity
						if le := e.Find(strings.TrimPrefix(p, "/")); le != nil && le.Type != nil {
							var want, got []string
							for _, u := range x.Type.Union {
								want = append(want, u.Kind+" "+u.IdentityBase)
							}
							for _, u := range le.Type.Type {
								b := ""
								if u.IdentityBase != nil {
									b = idKey(u.IdentityBase)
								}
								got = append(got, yang.TypeKindToName[u.Kind]+" "+b)
							}
							if fmt.Sprint(want) != fmt.Sprint(got) {
								o.Violate("identityref-base", "C11/identityref-union-members", "leaf %s of %s: union members should be %q, they are %q", p, m.Name, want, got)
								return
							}
						}
						continue
					}
					if x.Type == nil || x.Type.Kind != "identityref" {
						continue
					}
					le := e.Find(strings.TrimPrefix(p, "/"))
					if le == nil || le.Type == nil {
						continue
					}
					if le.Type.IdentityBase == nil {
						o.Violate("identityref-base", "C11/identityref-without-base", "leaf %s of %s has no identity base", p, m.Name)
						return
					}
					if obj := objs[x.Type.IdentityBase]; obj != le.Type.IdentityBase {
						o.Violate("identityref-base", "C11/identityref-wrong-identity", "leaf %s of %s: base should be %s, the type points at %s (same object: %v)", p, m.Name, x.Type.IdentityBase, idKey(le.Type.IdentityBase), obj == le.Type.IdentityBase)
						return
					}
				}
			}
		}
	}
	return o
}

func plant(t *rapid.T, set *ymodel.Set) string {
	var mods []*ymodel.Module
	for _, m := range set.Modules {
		if len(m.Identities) > 0 {
			mods = append(mods, m)
		}
	}
	if len(mods) == 0 {
		m := set.Modules[len(set.Modules)-1]
		m.Identities = append(m.Identities, &ymodel.Identity{Name: "ia"})
		mods = append(mods, m)
	}
	m := mods[rapid.IntRange(0, len(mods)-1).Draw(t, "module")]
	id := m.Identities[rapid.IntRange(0, len(m.Identities)-1).Draw(t, "identity")]
	switch rapid.SampledFrom([]string{"undefined-base", "unknown-prefix", "cycle", "cycle", "undefined-remote-base"}).Draw(t, "fault") {
	case "undefined-base":
		id.Bases = append(id.Bases, "nosuch")
		return "undefined-base"
	case "unknown-prefix":
		id.Bases = append(id.Bases, "zz:ia")
		return "unknown-prefix"
	case "undefined-remote-base":
		if len(m.Imports) == 0 {
			id.Bases = append(id.Bases, m.Prefix+":nosuch")
			return "undefined-base"
		}
		id.Bases = append(id.Bases, m.Imports[0].Prefix+":nosuch")
		return "undefined-remote-base"
	default:
		n := rapid.IntRange(1, 3).Draw(t, "cycle-length")
		for i := 0; i < n; i++ {
			m.Identities = append(m.Identities, &ymodel.Identity{Name: fmt.Sprintf("cy%d", i), Bases: []string{fmt.Sprintf("cy%d", (i+1)%n)}})
		}
		if rapid.Bool().Draw(t, "cycle-attached") {
			id.Bases = append(id.Bases, "cy0")
		}
		if rapid.Bool().Draw(t, "cycle-namesakes") {
			// identities of the same names in the modules that import this one, each derived from its namesake on
			// the cycle: the value list of a cycle member then holds two identities of its own name
			owner := set.Owner(m)
			if owner == nil {
				owner = m
			}
			some := false
			for _, m2 := range set.Modules {
				if m2.IsSub || m2 == owner {
					continue
				}
				for _, im := range m2.Imports {
					if im.Module != owner.Name {
						continue
					}
					for i := 0; i < n; i++ {
						if i == 0 || rapid.IntRange(0, 3).Draw(t, "namesake") != 0 {
							m2.Identities = append(m2.Identities, &ymodel.Identity{Name: fmt.Sprintf("cy%d", i), Bases: []string{fmt.Sprintf("%s:cy%d", im.Prefix, i)}})
							some = true
						}
					}
					break
				}
			}
			if some {
				return fmt.Sprintf("cycle-%d-with-namesakes", n)
			}
		}
		return fmt.Sprintf("cycle-%d", n)
	}
}

func gen(t *rapid.T) Case {
	o := ymodel.DefaultOpts()
	o.MaxModules = 4
	o.Typedefs, o.Groupings, o.RPC, o.Choices = false, false, false, false
	o.Budget = 6
	set, _ := schema.Generate(t, o)
	schema.AddIdentities(t, set, 10)
	c := Case{Set: set, Reruns: 6}
	if rapid.IntRange(0, 4).Draw(t, "plant") == 0 {
		c.Fault = plant(t, set)
		c.Reruns = 1
	}
	c.Orders = append(c.Orders, nil)
	if n := len(set.Modules); n > 1 {
		c.Orders = append(c.Orders, schema.Order(t, n), schema.Order(t, n))
	}
	return c
}

func TestCheck(t *testing.T) {
	ev.Run(t, ev.Spec[Case]{
		ID:    "C11",
		Level: "exploration",
		Rule: "identity derivation graphs over 1-4 modules and their submodules: up to 10 identities named from a pool of five (so equal names in different modules are common), 0-2 bases each (YANG 1.1 multiple bases, diamonds), bases written without prefix, with the own prefix and with import prefixes from a pool of four, plus identityref leaves and typedefs; every set is loaded in model order and two random load orders, six times each in fresh module sets (the identity dictionary is a map). One fifth of the cases plant an undefined local or remote base, an unknown prefix, or a derivation cycle of length 1-3. " +
			"Oracle: reference closure on the model: for every identity the listed Values, as a set of (module, name), equal the identities that reach it through one or more base statements, each once, never itself; the ordered list is identical over all reruns and load orders; every identityref type points at the very identity object its base names; planted faults yield an error and no crash. " +
			"Non-trivial = >= 3 identities and >= 2 base statements, or a planted fault; distinct by (set, orders)",
		Assumptions: []string{
			"a submodule refers only to identities of itself and of submodules it includes; every submodule is included by its module",
		},
		Check: check,
		Gen:   gen,
		Risky: true,
	})
}
