package scratch2

import (
	"fmt"
	"testing"

	"github.com/openconfig/goyang/pkg/yang"
	"verif/lib/rfc6"
)

func TestProbe(t *testing.T) {
	for _, text := range []string{
		"pattern\n  \"a\\\n      b\";",
		"pattern\n  \"a\n      b\";",
		"pattern \"a\\\n      b\";",
		"x \"a\\t  \nb\";",
	} {
		ref := rfc6.Parse(text)
		ss, err := yang.Parse(text, "f.yang")
		var arg string
		if err == nil && len(ss) > 0 {
			arg, _ = ss[0].Arg()
		}
		var rarg string
		if ref.OK && len(ref.Stmts) > 0 {
			rarg = ref.Stmts[0].Arg
		}
		fmt.Printf("%q\n  ref: ok=%v ooc=%q arg=%q\n  got: err=%v arg=%q\n", text, ref.OK, ref.OutOfClaim, rarg, err, arg)
	}
}
