// C08 — deviations change exactly what they name, in written order, or are reported.
package c08

import (
	"fmt"
	"strings"
	"testing"

	"github.com/openconfig/goyang/pkg/yang"
	"pgregory.net/rapid"

	"verif/lib/canon"
	"verif/lib/ev"
	"verif/lib/schema"
	"verif/lib/ymodel"
	"verif/lib/yref"
)

type Case struct {
	Set    *ymodel.Set `json:"set"`
	Order  []int       `json:"order,omitempty"`
	Ignore bool        `json:"ignore_not_supported,omitempty"`
	Fault  string      `json:"fault,omitempty"`
	// Repeats: how many times the case is run (the per-deviation map of
	// deviate kinds is iterated in an order the runtime picks)
	Repeats int `json:"repeats,omitempty"`
}

func deviationStats(set *ymodel.Set) (n, multi int, kinds map[string]bool) {
	kinds = map[string]bool{}
	for _, m := range set.Modules {
		for _, d := range m.Deviations {
			n++
			if len(d.Deviates) > 1 {
				multi++
			}
			for _, dv := range d.Deviates {
				kinds[dv.Kind] = true
			}
		}
	}
	return
}

func check(c Case) (o ev.Outcome) {
	if c.Set == nil {
		o.OutOfClaim = "empty case"
		return
	}
	srcs := schema.Sources(c.Set, c.Order)
	o.Sample = map[string]any{"fault": c.Fault, "ignore_not_supported": c.Ignore, "order": c.Order, "sources": srcs}
	r := yref.New(c.Set)
	trees := r.Expand()
	if len(r.Problems) > 0 {
		o.OutOfClaim = "base set has problems by the reference (harness)"
		return
	}
	for _, m := range c.Set.Modules {
		for _, d := range m.Deviations {
			if x := r.ResolvePath(trees, m, d.Path); x != nil {
				o.Class("target/" + x.Kind)
				if strings.Contains(d.Path, ":input") || strings.Contains(d.Path, ":output") || x.Kind == ymodel.KNotification {
					o.Class("target-in-operation")
				}
			}
		}
	}
	r.ApplyDeviations(trees, c.Ignore)
	n, multi, kinds := deviationStats(c.Set)
	for k := range kinds {
		o.Class("deviate/" + k)
	}
	if multi > 0 {
		o.Class("several-deviates-on-one-target")
	}
	if c.Ignore {
		o.Class("ignore-not-supported")
	}
	if c.Fault != "" {
		o.Class("fault/" + c.Fault)
		if len(r.Problems) == 0 {
			o.OutOfClaim = "planted fault not seen by the reference (harness)"
			return
		}
	} else if len(r.Problems) > 0 {
		o.OutOfClaim = "generated deviations not applicable by the reference (harness): " + strings.SplitN(r.Problems[0], ":", 2)[0]
		return
	}
	o.NonTrivial = n >= 1
	reps := c.Repeats
	if reps < 1 {
		reps = 1
	}
	for rep := 0; rep < reps; rep++ {
		var obs *schema.Observed
		if !ev.Guard(&o, "load+process", func() {
			obs = schema.Load(srcs, func(ms *yang.Modules) { ms.ParseOptions.DeviateOptions.IgnoreDeviateNotSupported = c.Ignore })
		}) {
			for i := range o.Violations {
				o.Violations[i].Sig = "C08/" + o.Violations[i].Sig
			}
			return
		}
		if c.Fault != "" {
			if obs.Clean() {
				o.Violate("inapplicable-reported", "C08/fault-unreported/"+c.Fault, "planted: %s (%v); run %d: processing reported no error", c.Fault, r.Problems, rep)
				return
			}
			continue
		}
		if !obs.Clean() {
			cls := schema.ErrClass(obs.ErrText())
			multiCls := "single-deviate"
			if multi > 0 {
				multiCls = "several-deviates"
			}
			o.Violate("applicable-applies", "C08/valid-rejected/"+cls+"/"+multiCls, "run %d: every deviation of the set is applicable in written order, yet: %s", rep, obs.ErrText())
			return
		}
		before := len(o.Violations)
		ev.Guard(&o, "compare", func() {
			schema.CompareModules(&o, c.Set, obs, trees, canon.DiffOpts{Types: true, Stmts: true}, "C08", "deviated-tree")
		})
		if len(o.Violations) > before {
			v := &o.Violations[len(o.Violations)-1]
			v.Detail = fmt.Sprintf("run %d: %s", rep, v.Detail)
			if multi > 0 {
				v.Sig += "/several-deviates"
			}
			return
		}
	}
	return o
}

// plant adds one deviation that cannot be applied.
func plant(t *rapid.T, set *ymodel.Set) string {
	r := yref.New(set)
	trees := r.Expand()
	if len(r.Problems) > 0 {
		return ""
	}
	r.ApplyDeviations(trees, false)
	d := set.Find("dev1")
	if d == nil {
		d = schema.NewDeviatingModule(set, "dev1")
		trees[d.Name] = &yref.Tree{Module: d.Name, Root: &yref.XNode{Name: d.Name, Kind: "module", NS: d.Name, Children: map[string]*yref.XNode{}}}
	}
	all := schema.Targets(set, trees, d)
	pick := func(pred func(schema.Target) bool, label string) *schema.Target {
		var c []schema.Target
		for _, tg := range all {
			if !tg.InOp && pred(tg) {
				c = append(c, tg)
			}
		}
		if len(c) == 0 {
			return nil
		}
		return &c[rapid.IntRange(0, len(c)-1).Draw(t, label)]
	}
	s := func(x string) *string { return &x }
	addDev := func(path string, dv ...*ymodel.Deviate) {
		d.Deviations = append(d.Deviations, &ymodel.Deviation{Path: path, Deviates: dv})
	}
	switch rapid.SampledFrom([]string{"target-removed-earlier", "below-removed-ancestor", "missing-target", "add-default-exists", "delete-default-absent", "delete-default-different", "delete-bound-different", "bounds-on-non-list", "unresolvable-type", "unknown-kind"}).Draw(t, "fault") {
	case "target-removed-earlier":
		// two deviation statements with the same path: the first removes the node, the second finds none
		untouched := func(x schema.Target) bool {
			if x.Node.Kind != ymodel.KLeaf && x.Node.Kind != ymodel.KLeafList || x.InOp {
				return false
			}
			for _, m := range set.Modules {
				for _, dv := range m.Deviations {
					if dv.Path == x.Path || strings.HasPrefix(x.Path, dv.Path+"/") || strings.HasPrefix(dv.Path, x.Path+"/") {
						return false
					}
				}
			}
			return true
		}
		if tg := pick(untouched, "removed-then-deviated"); tg != nil {
			addDev(tg.Path, &ymodel.Deviate{Kind: "not-supported"})
			addDev(tg.Path, &ymodel.Deviate{Kind: rapid.SampledFrom([]string{"add", "replace"}).Draw(t, "second-deviate"), Units: "late"})
			return "target-removed-earlier"
		}
	case "below-removed-ancestor":
		// a node is deviated (or not), then an ancestor of it is removed, then the node is deviated under the very
		// same path text: the last deviation has no target any more
		clear := func(path string) bool {
			for _, m := range set.Modules {
				for _, dv := range m.Deviations {
					if dv.Path == path || strings.HasPrefix(path, dv.Path+"/") || strings.HasPrefix(dv.Path, path+"/") {
						return false
					}
				}
			}
			return true
		}
		var anc *schema.Target
		tg := pick(func(x schema.Target) bool {
			if x.Node.Kind != ymodel.KLeaf && x.Node.Kind != ymodel.KLeafList || !clear(x.Path) {
				return false
			}
			for i := range all {
				if !all[i].InOp && strings.HasPrefix(x.Path, all[i].Path+"/") && clear(all[i].Path) {
					return true
				}
			}
			return false
		}, "below-removed")
		if tg != nil {
			var ancs []int
			for i := range all {
				if !all[i].InOp && strings.HasPrefix(tg.Path, all[i].Path+"/") && clear(all[i].Path) {
					ancs = append(ancs, i)
				}
			}
			anc = &all[ancs[rapid.IntRange(0, len(ancs)-1).Draw(t, "removed-ancestor")]]
			if rapid.Bool().Draw(t, "deviated-before") {
				addDev(tg.Path, &ymodel.Deviate{Kind: rapid.SampledFrom([]string{"add", "replace"}).Draw(t, "first-deviate"), Units: "early"})
			}
			addDev(anc.Path, &ymodel.Deviate{Kind: "not-supported"})
			addDev(tg.Path, &ymodel.Deviate{Kind: rapid.SampledFrom([]string{"add", "replace"}).Draw(t, "second-deviate"), Units: "late"})
			return "below-removed-ancestor"
		}
	case "missing-target":
		if tg := pick(func(schema.Target) bool { return true }, "near"); tg != nil {
			addDev(tg.Path+"/dv:nosuch", &ymodel.Deviate{Kind: "not-supported"})
			return "missing-target"
		}
	case "add-default-exists":
		if tg := pick(func(x schema.Target) bool { return x.Node.Kind == ymodel.KLeaf && len(x.Node.Default) > 0 }, "leaf"); tg != nil {
			addDev(tg.Path, &ymodel.Deviate{Kind: "add", Default: s("zz")})
			return "add-default-exists"
		}
	case "delete-default-absent":
		if tg := pick(func(x schema.Target) bool { return x.Node.Kind == ymodel.KLeaf && len(x.Node.Default) == 0 }, "leaf"); tg != nil {
			addDev(tg.Path, &ymodel.Deviate{Kind: "delete", Default: s("zz")})
			return "delete-default-absent"
		}
	case "delete-default-different":
		if tg := pick(func(x schema.Target) bool { return x.Node.Kind == ymodel.KLeaf && len(x.Node.Default) > 0 }, "leaf"); tg != nil {
			addDev(tg.Path, &ymodel.Deviate{Kind: "delete", Default: s(tg.Node.Default[0] + "x")})
			return "delete-default-different"
		}
	case "delete-bound-different":
		if tg := pick(func(x schema.Target) bool { return x.Node.Kind == ymodel.KList || x.Node.Kind == ymodel.KLeafList }, "list"); tg != nil {
			if rapid.Bool().Draw(t, "min-or-max") {
				addDev(tg.Path, &ymodel.Deviate{Kind: "delete", Min: fmt.Sprint(tg.Node.Min + 3)})
				return "delete-min-different"
			}
			v := uint64(12345)
			if tg.Node.Max == v {
				v++
			}
			addDev(tg.Path, &ymodel.Deviate{Kind: "delete", Max: fmt.Sprint(v)})
			return "delete-max-different"
		}
	case "bounds-on-non-list":
		if tg := pick(func(x schema.Target) bool { return x.Node.Kind == ymodel.KLeaf || x.Node.Kind == ymodel.KContainer }, "non-list"); tg != nil {
			kind := rapid.SampledFrom([]string{"add", "replace", "delete"}).Draw(t, "bound-kind")
			if rapid.Bool().Draw(t, "min-or-max") {
				addDev(tg.Path, &ymodel.Deviate{Kind: kind, Min: "2"})
			} else {
				addDev(tg.Path, &ymodel.Deviate{Kind: kind, Max: "9"})
			}
			return "bounds-on-non-list/" + kind
		}
	case "unresolvable-type":
		if tg := pick(func(x schema.Target) bool { return x.Node.Kind == ymodel.KLeaf || x.Node.Kind == ymodel.KLeafList }, "leaf"); tg != nil {
			addDev(tg.Path, &ymodel.Deviate{Kind: "replace", Type: &ymodel.TypeRef{Name: "nosuch"}})
			return "unresolvable-type"
		}
	case "unknown-kind":
		if tg := pick(func(schema.Target) bool { return true }, "any"); tg != nil {
			addDev(tg.Path, &ymodel.Deviate{Kind: "bogus"})
			return "unknown-deviate-kind"
		}
	}
	return ""
}

func gen(t *rapid.T) Case {
	o := ymodel.DefaultOpts()
	o.Typedefs = rapid.IntRange(0, 3).Draw(t, "typedefs") == 0
	o.RPC = rapid.IntRange(0, 2).Draw(t, "rpc") == 0
	o.Budget = 24
	o.Extras = true // must, when, status, reference, presence and extension statements on nodes, uses and augments
	schema.AugmentExtras = true
	set, _ := schema.Generate(t, o)
	schema.AddAugments(t, set, 0, 2)
	c := Case{Set: set, Repeats: 6}
	c.Ignore = rapid.IntRange(0, 3).Draw(t, "ignore-not-supported") == 0
	schema.AddDeviations(t, set, schema.DevOpts{Modules: rapid.IntRange(1, 2).Draw(t, "deviating-modules"), Max: 5, NotSupported: true, Operations: true, OlderEmpty: true})
	if rapid.IntRange(0, 3).Draw(t, "plant") == 0 {
		c.Fault = plant(t, set)
	}
	if rapid.Bool().Draw(t, "permute") {
		c.Order = schema.Order(t, len(set.Modules))
	}
	return c
}

func TestCheck(t *testing.T) {
	ev.Run(t, ev.Spec[Case]{
		ID:    "C08",
		Level: "exploration",
		Rule: "a base set from the schema model (optionally with augments) plus 1-2 deviating modules with 1-5 deviations each: every deviate kind and every property the claim lists (config, default, mandatory, min/max-elements, units, type), 1-3 deviate statements per deviation drawn so that each is applicable to the node as the previous ones left it (add what is absent, replace/delete what is present and equal), targets that are leaves, leaf-lists, lists, containers, choices (in the data tree and below rpc/action input/output and notifications, there without config), and for not-supported also cases, anydata/anyxml, rpcs, actions, notifications and written input/output nodes; also copies made by uses and nodes grafted by augments; a second module may deviate other properties of the same node; both settings of the ignore-not-supported option; model or permuted load order; every case is run 6 times in fresh module sets (the runtime re-randomises the iteration order of the map of deviate kinds). One quarter of the cases plant exactly one inapplicable deviation of each class the property lists (missing target including a target that an earlier deviation of the module removed - the node itself or an ancestor of it, with or without an earlier deviation under the same path text -, default exists/absent/different, element bound different or on a non-list, unresolvable type, unknown deviate kind). " +
			"Oracle: reference application of RFC 7950 7.20.3 in written order on the expanded model; every module tree must equal it completely (so every node no deviation targets equals what the modules yield without the deviating module), applicable deviations must not be rejected, planted inapplicable ones must produce an error. " +
			"Non-trivial = at least one deviation; distinct by (set, order, option)",
		Assumptions: []string{
			"not generated (outside the claim): must/unique deviations; delete of a default on a leaf-list; add of an existing or replace of an absent config/mandatory/units; delete of min-elements 0 / max-elements unbounded on a node that has none; two modules deviating the same property of one node (no written order exists between modules)",
			"an unwritten rpc/action input or output is not used as a deviation target",
		},
		Check: check,
		Gen:   gen,
		Risky: true,
	})
}
