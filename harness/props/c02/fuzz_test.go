package c02

import (
	"os"
	"path/filepath"
	"testing"
	"unicode/utf8"

	"verif/lib/ev"
)

func seedFiles(f *testing.F, globs ...string) {
	repo := os.Getenv("VERIF_REPO")
	if repo == "" {
		repo = "/repo"
	}
	for _, g := range globs {
		files, _ := filepath.Glob(filepath.Join(repo, g))
		for _, p := range files {
			if b, err := os.ReadFile(p); err == nil && len(b) < 16<<10 {
				f.Add(b)
			}
		}
	}
}

// FuzzParse: coverage-guided bytes through the differential oracle.
func FuzzParse(f *testing.F) {
	ev.Setup()
	seedFiles(f, "testdata/*.yang", "pkg/yang/testdata/*.yang")
	for _, s := range []string{"a;", "a \"b\n   c\" + 'd';", "pattern '\\d';", "a{b;}/* c */ // d\n", "a \"x\\n\\t\\\\\\\"\";", "/*/", "a \"\n\t b\";"} {
		f.Add([]byte(s))
	}
	f.Fuzz(func(t *testing.T, data []byte) {
		if len(data) > 16<<10 || !utf8.Valid(data) {
			return
		}
		c := Case{Text: string(data)}
		ev.FuzzJudge(t, "C02", c, check(c))
	})
}
