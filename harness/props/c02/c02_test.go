// C02 — generic parsing agrees with the RFC 7950 section 6 reading of the text.
package c02

import (
	"fmt"
	"strings"
	"testing"

	"github.com/openconfig/goyang/pkg/yang"
	"pgregory.net/rapid"

	"verif/lib/ev"
	"verif/lib/rfc6"
	"verif/lib/textgen"
)

// Case is a text. Intent, when present, is the forest the text was printed
// from (a second derivation of the expected result).
type Case struct {
	Text   string       `json:"text"`
	Intent []*rfc6.Node `json:"intent,omitempty"`
	HasInt bool         `json:"has_intent,omitempty"`
}

func eqForest(a []*rfc6.Stmt, b []*yang.Statement, path string) string {
	if len(a) != len(b) {
		return fmt.Sprintf("%s: %d statements expected, %d returned", path, len(a), len(b))
	}
	for i := range a {
		arg, has := b[i].Arg()
		here := fmt.Sprintf("%s/%s[%d]", path, a[i].Keyword, i)
		switch {
		case a[i].Keyword != b[i].Keyword:
			return fmt.Sprintf("%s: keyword %q expected, %q returned", here, a[i].Keyword, b[i].Keyword)
		case a[i].HasArg != has:
			return fmt.Sprintf("%s: argument presence %v expected, %v returned", here, a[i].HasArg, has)
		case a[i].Arg != arg:
			return fmt.Sprintf("%s: argument %q expected, %q returned", here, a[i].Arg, arg)
		}
		if d := eqForest(a[i].Subs, b[i].SubStatements(), here); d != "" {
			return d
		}
	}
	return ""
}

// feature names the constructs present in a text, for signatures/classes.
func features(text string) []string {
	var f []string
	if strings.Contains(text, "/*") {
		f = append(f, "block-comment")
	}
	if strings.Contains(text, "//") {
		f = append(f, "line-comment")
	}
	if strings.Contains(text, "\"") {
		f = append(f, "dquote")
	}
	if strings.Contains(text, "'") {
		f = append(f, "squote")
	}
	if strings.Contains(text, "+") {
		f = append(f, "plus")
	}
	if strings.Contains(text, "\\") {
		f = append(f, "backslash")
	}
	if strings.Contains(text, "{") {
		f = append(f, "block")
	}
	return f
}

func diffClass(ref rfc6.Result, text string) string {
	// where does the divergence come from? name the constructs involved
	var c []string
	if strings.Contains(text, "/*/") {
		c = append(c, "slash-star-slash")
	} else if strings.Contains(text, "/*") {
		c = append(c, "block-comment")
	}
	if multiLineDQ(text) {
		c = append(c, "multi-line-dquote")
	}
	if strings.Contains(text, "\\") {
		c = append(c, "backslash")
	}
	if strings.Contains(text, "+") {
		c = append(c, "plus")
	}
	if len(c) == 0 {
		return "plain"
	}
	return strings.Join(c, "+")
}

func multiLineDQ(text string) bool {
	i := strings.Index(text, "\"")
	return i >= 0 && strings.Contains(text[i:], "\n") && strings.Count(text, "\"") >= 2
}

func check(c Case) (o ev.Outcome) {
	text := c.Text
	o.Key = text
	ref := rfc6.Parse(text)
	if ref.OutOfClaim != "" {
		o.OutOfClaim = ref.OutOfClaim
		return
	}
	if c.HasInt {
		// harness self-check: the printer's intent and the reference reader agree
		if !ref.OK {
			panic(fmt.Sprintf("harness inconsistency: printed text rejected by the reference reader (%s at %d:%d): %q", ref.ErrKind, ref.ErrLine, ref.ErrCol, text))
		}
		if d := rfc6.EqualForest(c.Intent, ref.Stmts, false); d != "" {
			panic(fmt.Sprintf("harness inconsistency: reference reader disagrees with the printer's intent: %s: %q", d, text))
		}
		o.Class("printed")
	}
	fs := features(text)
	o.NonTrivial = (ref.OK && len(ref.Stmts) > 0) || len(fs) > 0
	if ref.OK {
		o.Class("reference-accepts")
	} else {
		o.Class("reference-rejects/" + ref.ErrKind)
	}
	if multiLineDQ(text) {
		o.Class("multi-line-dquote")
	}
	o.Sample = text
	var ss []*yang.Statement
	var err error
	if !ev.Guard(&o, "yang.Parse", func() { ss, err = yang.Parse(text, "f.yang") }) {
		return
	}
	switch {
	case ref.OK && err != nil:
		o.Violate("accepts-well-formed", "C02/rejected-well-formed/"+diffClass(ref, text), "text %q is a well-formed statement sequence but was rejected: %v", text, err)
	case !ref.OK && err == nil:
		o.Violate("rejects-malformed", "C02/accepted-malformed/"+ref.ErrKind+"/"+diffClass(ref, text), "text %q is malformed (%s at %d:%d) but was accepted", text, ref.ErrKind, ref.ErrLine, ref.ErrCol)
	case ref.OK:
		if d := eqForest(ref.Stmts, ss, ""); d != "" {
			o.Violate("forest", "C02/forest-differs/"+diffClass(ref, text), "text %q: %s", text, d)
		}
	default:
		if ss != nil {
			o.Violate("rejection-shape", "C02/rejection-returns-statements", "text %q rejected but %d statements returned", text, len(ss))
		}
		if strings.TrimSpace(err.Error()) == "" {
			o.Violate("rejection-shape", "C02/rejection-empty-error", "text %q rejected with an empty error", text)
		}
	}
	return o
}

func enumerate(tier string, shard, shards int, emit func(Case) bool) bool {
	maxL := 6
	if tier == "thorough" {
		maxL = 7
	}
	return textgen.EnumTexts(maxL, shard, shards, func(s string) bool { return emit(Case{Text: s}) })
}

// genDeep: deeply nested blocks and long runs of punctuation without any separation.
func genDeep(t *rapid.T) Case {
	depth := rapid.IntRange(5, 20).Draw(t, "depth")
	var build func(d int) *rfc6.Node
	build = func(d int) *rfc6.Node {
		n := &rfc6.Node{Keyword: rapid.SampledFrom([]string{"c", "leaf", "a", "pattern"}).Draw(t, "kw")}
		if rapid.IntRange(0, 2).Draw(t, "arg") == 0 {
			n.HasArg, n.Arg = true, rapid.SampledFrom([]string{"x", "a b", ""}).Draw(t, "argv")
		}
		if d < depth {
			n.Subs = append(n.Subs, build(d+1))
			if rapid.IntRange(0, 3).Draw(t, "sibling") == 0 {
				n.Subs = append(n.Subs, &rfc6.Node{Keyword: "s"})
			}
		}
		return n
	}
	f := []*rfc6.Node{build(1)}
	if rapid.Bool().Draw(t, "second-top") {
		f = append(f, &rfc6.Node{Keyword: "t"})
	}
	p := rfc6.NewPrinter(textgen.Chooser{T: t})
	p.Plain = true // no optional separators at all: runs of adjacent punctuation
	p.Forest(f)
	text := p.String()
	if rapid.IntRange(0, 3).Draw(t, "mutate-deep") == 0 {
		// one closer too many or too few
		if rapid.Bool().Draw(t, "extra") {
			text += "}"
		} else if i := strings.LastIndex(text, "}"); i >= 0 {
			text = text[:i] + text[i+1:]
		}
		return Case{Text: text}
	}
	return Case{Text: text, Intent: f, HasInt: true}
}

func gen(t *rapid.T) Case {
	if rapid.IntRange(0, 11).Draw(t, "deep") == 0 {
		return genDeep(t)
	}
	f := textgen.Forest(t)
	text := textgen.Render(t, f)
	if rapid.IntRange(0, 2).Draw(t, "mutate") == 0 {
		n := rapid.IntRange(1, 2).Draw(t, "mutations")
		for i := 0; i < n; i++ {
			text = textgen.Mutate(t, text)
		}
		return Case{Text: text}
	}
	return Case{Text: text, Intent: f, HasInt: true}
}

func TestCheck(t *testing.T) {
	ev.Run(t, ev.Spec[Case]{
		ID:    "C02",
		Level: "exploration",
		Rule: "exhaustive part: every concatenation of up to L fragments from {a, pattern, SP, LF, TAB, CR, ; { } \" ' \\ + / * n}; " +
			"random part: statement forests (depth <= 4, keywords incl. pattern, prefixed names, '+', '/x', multi-byte) with hostile argument strings, (one twelfth of the cases: chains nested 5-20 deep printed without any optional separator, i.e. long runs of adjacent punctuation, sometimes with one closer too many or too few) printed with random layout (unquoted / single / double quoted / 2-4 '+'-joined pieces, escapes, multi-line strings with continuation indentation by spaces and tabs below/at the quote column, trailing blanks, comments of both kinds incl. multi-line, CRLF between tokens, no whitespace where the boundary is determined), one third of them with 1-2 character mutations. " +
			"Oracle: differential against the harness's RFC 7950 section 6 reader (acceptance, keyword, argument presence, exact argument, nesting, order; nil statements and non-empty error on rejection); printed texts are additionally cross-checked against the printer's intent. " +
			"Non-trivial = the reference accepts with >= 1 statement, or the text contains a quote, comment opener, '+', backslash or brace; distinct by text",
		Assumptions: []string{
			"out of claim (counted): comment sequences inside or directly after an unquoted token; a tab straddling the strip column; an escape-produced blank before a literal line break; CR LF inside a double-quoted string; invalid UTF-8",
			"unknown escapes are errors except in the argument of a statement whose keyword is exactly 'pattern'",
		},
		Check:     check,
		Gen:       gen,
		Enumerate: enumerate,
		EnumNote: func(tier string) string {
			if tier == "thorough" {
				return "all texts of <= 7 fragments over the 16-fragment alphabet (286,331,152 texts)"
			}
			return "all texts of <= 6 fragments over the 16-fragment alphabet (17,895,696 texts)"
		},
	})
}
