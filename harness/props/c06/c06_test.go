// C06 — every use of a grouping is an independent, faithful, locally scoped copy.
package c06

import (
	"fmt"
	"sort"
	"testing"

	"github.com/openconfig/goyang/pkg/yang"
	"pgregory.net/rapid"

	"verif/lib/canon"
	"verif/lib/ev"
	"verif/lib/schema"
	"verif/lib/ymodel"
	"verif/lib/yref"
)

type Case struct {
	Set   *ymodel.Set `json:"set"`
	Order []int       `json:"order,omitempty"`
	// StoreUses: the option that keeps the uses statements on the entries is set (the trees are the same)
	StoreUses bool `json:"store_uses,omitempty"`
	// Stage2 names what was added on top of the base set: "", "augment", "deviation"
	Stage2 string `json:"stage2,omitempty"`
}

// usesStats counts uses statements, the maximal number of uses of one
// grouping (by name+module) and nesting.
func usesStats(set *ymodel.Set) (uses int, maxSame int, cross bool) {
	count := map[string]int{}
	for _, m := range set.Modules {
		var walk func(b *ymodel.Body)
		walk = func(b *ymodel.Body) {
			for _, g := range b.Groupings {
				walk(&g.Body)
			}
			for _, n := range b.Nodes {
				if n.Kind == ymodel.KUses {
					uses++
					count[n.Name]++
					for i := 0; i < len(n.Name); i++ {
						if n.Name[i] == ':' && n.Name[:i] != m.Prefix {
							cross = true
						}
					}
				}
				walk(&n.Body)
			}
		}
		walk(&m.Body)
		for _, a := range m.Augments {
			walk(&a.Body)
		}
	}
	for _, c := range count {
		if c > maxSame {
			maxSame = c
		}
	}
	return
}

func sharedEntries(ms *yang.Modules) string {
	seen := map[*yang.Entry]string{}
	var found string
	var walk func(e *yang.Entry, path string)
	walk = func(e *yang.Entry, path string) {
		if e == nil || found != "" {
			return
		}
		if p, ok := seen[e]; ok {
			found = fmt.Sprintf("%s and %s are one node object", p, path)
			return
		}
		seen[e] = path
		keys := make([]string, 0, len(e.Dir))
		for k := range e.Dir {
			keys = append(keys, k)
		}
		sort.Strings(keys)
		for _, k := range keys {
			walk(e.Dir[k], path+"/"+k)
		}
		if e.RPC != nil {
			walk(e.RPC.Input, path+"/input")
			walk(e.RPC.Output, path+"/output")
		}
	}
	done := map[*yang.Module]bool{}
	names := make([]string, 0, len(ms.Modules))
	for k := range ms.Modules {
		names = append(names, k)
	}
	sort.Strings(names)
	for _, k := range names {
		if m := ms.Modules[k]; !done[m] {
			done[m] = true
			walk(yang.ToEntry(m), "/"+m.Name)
		}
	}
	return found
}

func check(c Case) (o ev.Outcome) {
	if c.Set == nil {
		o.OutOfClaim = "empty case"
		return
	}
	srcs := schema.Sources(c.Set, c.Order)
	o.Sample = map[string]any{"stage2": c.Stage2, "order": c.Order, "sources": srcs}
	r := yref.New(c.Set)
	trees := r.Expand()
	if len(r.Problems) > 0 {
		o.OutOfClaim = "generated set has problems by the reference (harness)"
		return
	}
	r.ApplyDeviations(trees, false)
	if len(r.Problems) > 0 {
		o.OutOfClaim = "generated deviations not applicable by the reference (harness)"
		return
	}
	uses, maxSame, cross := usesStats(c.Set)
	maxSteps := 0
	for _, t := range trees {
		for _, x := range yref.Paths(t) {
			if x.CopySteps > maxSteps {
				maxSteps = x.CopySteps
			}
		}
	}
	// copies that carry uninterpreted statements (must, when, status, reference, presence, extensions) of their
	// own, or received some from the uses/augment statement that placed them
	ownSt, placedSt := false, false
	for _, t := range trees {
		for _, x := range yref.Paths(t) {
			if x.CopySteps > 0 && (len(x.Extra) > 0 || len(x.Exts) > 0) {
				ownSt = true
			}
		}
	}
	for _, m := range c.Set.Modules {
		var walk func(b *ymodel.Body)
		walk = func(b *ymodel.Body) {
			for _, g := range b.Groupings {
				walk(&g.Body)
			}
			for _, n := range b.Nodes {
				if n.Kind == ymodel.KUses && len(n.Extras) > 0 {
					placedSt = true
				}
				walk(&n.Body)
			}
		}
		walk(&m.Body)
		for _, a := range m.Augments {
			if len(a.Extras) > 0 {
				placedSt = true
			}
			walk(&a.Body)
		}
	}
	if ownSt {
		o.Class("copies-with-constraint-or-extension-statements")
	}
	if placedSt {
		o.Class("uses-or-augment-with-statements-of-its-own")
	}
	if maxSame >= 2 {
		o.Class("grouping-used-twice-or-more")
	}
	if cross {
		o.Class("cross-module-uses")
	}
	if maxSteps >= 2 {
		o.Class("nested-uses")
	}
	if c.Stage2 != "" {
		o.Class("stage2/" + c.Stage2)
	}
	o.NonTrivial = uses >= 1 && maxSame >= 2 && (maxSteps >= 2 || cross)
	var obs *schema.Observed
	if !ev.Guard(&o, "load+process", func() { obs = schema.Load(srcs, func(ms *yang.Modules) { ms.ParseOptions.StoreUses = c.StoreUses }) }) {
		for i := range o.Violations {
			o.Violations[i].Sig = "C06/" + o.Violations[i].Sig
		}
		return
	}
	if !obs.Clean() {
		cls := schema.ErrClass(obs.ErrText())
		switch cls {
		case "unknown-type", "unknown-prefix", "bad-range", "bad-length", "circular", "identity", "augment", "deviat", "no-such-module", "no-such-submodule", "not-found":
			// judged by C09/C10 (types), C07 (augments), C08 (deviations), C11 (identities), C13 (linkage)
			o.OutOfClaim = "valid set rejected for a reason outside grouping expansion (" + cls + ")"
			return
		}
		o.Violate("uses-expands", "C06/valid-rejected/"+cls, "every uses of the set binds lexically to a grouping and all node names are distinct, yet: %s", obs.ErrText())
		return
	}
	ev.Guard(&o, "compare", func() {
		pre := "C06"
		if c.Stage2 != "" {
			pre = "C06/after-" + c.Stage2
		}
		schema.CompareModules(&o, c.Set, obs, trees, canon.DiffOpts{Types: true, NS: true, Defaults: c.Stage2 != "deviation", IfFeatures: true, Stmts: true}, pre, "instance-equals-expansion")
		if len(o.Violations) == 0 {
			if s := sharedEntries(obs.MS); s != "" {
				o.Violate("independent-copies", "C06/shared-node-object", "%s", s)
			}
		}
	})
	return o
}

func gen(t *rapid.T) Case {
	o := ymodel.DefaultOpts()
	o.Typedefs = rapid.Bool().Draw(t, "typedefs")
	o.IfFeatures = true
	schema.AugmentIfFeatures = true
	o.Extras = true
	o.Posix = true // posix-pattern statements of openconfig-extensions in string types
	schema.AugmentExtras = true
	set, _ := schema.Generate(t, o)
	c := Case{Set: set}
	switch rapid.IntRange(0, 3).Draw(t, "stage2") {
	case 1:
		// a module that augments into instances
		if l := schema.AddAugments(t, set, 1, 3); l["augment/target-was-copied"] > 0 {
			c.Stage2 = "augment"
		} else if len(l) > 0 {
			c.Stage2 = "augment-elsewhere"
		}
	case 2:
		if l := schema.AddDeviations(t, set, schema.DevOpts{Modules: 1, Max: 3, OnlyInUse: true, NotSupported: true}); len(l) > 0 {
			c.Stage2 = "deviation"
			// the added module also uses visible groupings afresh
			schema.UseAfresh(t, set, set.Find("dev1"))
		}
	}
	if rapid.Bool().Draw(t, "permute") {
		c.Order = schema.Order(t, len(set.Modules))
	}
	c.StoreUses = rapid.IntRange(0, 3).Draw(t, "store-uses") == 0
	return c
}

func TestCheck(t *testing.T) {
	ev.Run(t, ev.Spec[Case]{
		ID:    "C06",
		Level: "exploration",
		Rule: "module sets from the schema model with groupings at every scope (module, submodule, container, list, grouping, rpc, action, input, output, notification), nested uses to depth 3, defined and used across modules and submodules under arbitrary prefixes, with same-named typedefs and groupings (three-name pool) in the defining and the using module, most groupings used two or more times; in half of the cases a second stage adds augments into, or a deviating module with deviations (default, min/max-elements, config, mandatory, units, type, not-supported) inside, one instance, and the added module uses the visible groupings afresh. " +
			"Oracle: the subtree under every using node equals the reference expansion (names, kinds, resolved types with their units marks, defaults, mandatory, list attributes, key, config, nesting; namespace = using module; names inside the grouping bound in the defining scope); after the second stage every tree still equals the reference, which changes exactly the targeted instance; no *Entry object is met twice in the module trees. " +
			"Non-trivial = a grouping with >= 2 uses and nesting >= 2 or a cross-module use; distinct by (set, order)",
		Assumptions: []string{
			"refine and uses-augment are not generated (not implemented by the library; outside the claim)",
			"attribute objects (ListAttr, Type, Default slice) are judged through behaviour (second stage), node objects directly",
		},
		Check: check,
		Gen:   gen,
		Risky: true,
	})
}
