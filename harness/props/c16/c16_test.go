// C16 — reported source positions are the true positions.
package c16

import (
	"fmt"
	"regexp"
	"sort"
	"strconv"
	"strings"
	"testing"
	"verif/lib/hostile"

	"github.com/openconfig/goyang/pkg/yang"
	"pgregory.net/rapid"

	"verif/lib/astinfo"
	"verif/lib/ev"
	"verif/lib/rfc6"
	"verif/lib/textgen"
)

type FileText struct {
	Name string `json:"name"`
	Text string `json:"text"`
}

// Case: Kind "text" (statement positions of accepted texts; position of the
// first error of rejected ones) or "module" (one injected semantic fault).
type Case struct {
	Kind    string     `json:"kind"`
	Text    string     `json:"text,omitempty"`
	Files   []FileText `json:"files,omitempty"`
	Base    []FileText `json:"base,omitempty"` // the same module set before the fault was planted
	Fault   string     `json:"fault,omitempty"`
	ExpFile string     `json:"exp_file,omitempty"`
	ExpLine int        `json:"exp_line,omitempty"`
	ExpCol  int        `json:"exp_col,omitempty"`
}

var judgedKinds = map[string]bool{
	"unexpected-close": true, "expected-semi-or-open": true, "keyword-quoted": true,
	"bad-escape": true, "unterminated-squote": true, "unterminated-dquote": true, "unterminated-comment": true,
}
var lexicalKinds = map[string]bool{"bad-escape": true, "unterminated-squote": true, "unterminated-dquote": true, "unterminated-comment": true}

var firstPos = regexp.MustCompile(`^f\.yang:(-?\d+):(-?\d+):`)

func layoutClass(text string, line, col int) string {
	// what precedes the position on its way: tabs, multi-byte, comments, multi-line strings, CRLF
	var c []string
	if strings.Contains(text, "\t") {
		c = append(c, "tab")
	}
	if len(text) != len([]rune(text)) {
		c = append(c, "multibyte")
	}
	if strings.Contains(text, "/*") || strings.Contains(text, "//") {
		c = append(c, "comment")
	}
	if strings.Contains(text, "\r\n") {
		c = append(c, "crlf")
	}
	if line > 1 {
		c = append(c, "multi-line")
	}
	if len(c) == 0 {
		return "plain"
	}
	return strings.Join(c, "+")
}

func posDiff(s []*rfc6.Stmt, y []*yang.Statement, o *ev.Outcome, text string, n *int) {
	if len(s) != len(y) {
		return // C02's business
	}
	for i := range s {
		*n++
		want := fmt.Sprintf("f.yang:%d:%d", s[i].Line, s[i].Col)
		if got := y[i].Location(); got != want && len(o.Violations) == 0 {
			o.Violate("statement-position", "C16/statement-position/"+posClass(text, s[i].Line, s[i].Col, got), "text %q: statement %q reports %s, its keyword starts at %s", text, s[i].Keyword, got, want)
		}
		posDiff(s[i].Subs, y[i].SubStatements(), o, text, n)
	}
}

// posClass: which part is wrong and what kind of layout precedes it.
func posClass(text string, line, col int, got string) string {
	part := "column"
	if !strings.HasPrefix(got, fmt.Sprintf("f.yang:%d:", line)) {
		part = "line"
	}
	// preceding text on the way to the position
	pre := prefixUpTo(text, line, col)
	var c []string
	if strings.Contains(pre, "\t") {
		c = append(c, "tab")
	}
	if len(pre) != len([]rune(pre)) {
		c = append(c, "multibyte")
	}
	if strings.Contains(pre, "/*") {
		c = append(c, "block-comment")
	}
	if strings.Contains(pre, "'") {
		c = append(c, "squote")
	}
	if strings.Contains(pre, "\"") {
		c = append(c, "dquote")
	}
	if strings.Contains(pre, "\r\n") {
		c = append(c, "crlf")
	}
	if len(c) == 0 {
		c = append(c, "plain")
	}
	return part + "/after-" + strings.Join(c, "+")
}

func prefixUpTo(text string, line, col int) string {
	l, c := 1, 1
	for i, r := range text {
		if l == line && c == col {
			return text[:i]
		}
		if r == '\n' {
			l++
			c = 1
		} else {
			c++
		}
	}
	return text
}

func checkText(c Case, o *ev.Outcome) {
	text := c.Text
	o.Key = "t|" + text
	o.Sample = text
	ref := rfc6.Parse(text)
	if ref.OutOfClaim != "" {
		o.OutOfClaim = ref.OutOfClaim
		return
	}
	var ss []*yang.Statement
	var err error
	if !ev.Guard(o, "yang.Parse", func() { ss, err = yang.Parse(text, "f.yang") }) {
		o.Violations = nil
		o.OutOfClaim = "parser panic (C01)"
		return
	}
	if ref.OK != (err == nil) {
		o.OutOfClaim = "acceptance disagreement (decided by C02)"
		return
	}
	if ref.OK {
		o.Class("accepted-text")
		n := 0
		posDiff(ref.Stmts, ss, o, text, &n)
		o.NonTrivial = n >= 2 || (n == 1 && (ref.Stmts[0].Line > 1 || ref.Stmts[0].Col > 1))
		return
	}
	if !judgedKinds[ref.ErrKind] {
		o.OutOfClaim = "first fault is of a kind the property does not list (" + ref.ErrKind + ")"
		return
	}
	if !lexicalKinds[ref.ErrKind] && ref.LexFaults > 0 {
		o.OutOfClaim = "multi-fault text (a lexical fault follows the first syntactic fault)"
		return
	}
	o.Class("rejected-text/" + ref.ErrKind)
	o.NonTrivial = true
	first := strings.SplitN(err.Error(), "\n", 2)[0]
	m := firstPos.FindStringSubmatch(first)
	want := fmt.Sprintf("%d:%d", ref.ErrLine, ref.ErrCol)
	if m == nil {
		o.Violate("error-position", "C16/error-position/"+ref.ErrKind+"/no-position", "text %q: first error line %q carries no file:line:col; the offending %s is at %s", text, first, ref.ErrKind, want)
		return
	}
	if got := m[1] + ":" + m[2]; got != want {
		sub := ""
		if ref.ErrKind == "bad-escape" {
			// which character follows the backslash
			pre := prefixUpTo(text, ref.ErrLine, ref.ErrCol)
			rest := []rune(text[len(pre):])
			if len(rest) > 1 && rest[1] == '\n' {
				sub = "/backslash-newline"
			} else if len(rest) > 1 && rest[1] > 127 {
				sub = "/multibyte-escape-char"
			}
		}
		o.Violate("error-position", "C16/error-position/"+ref.ErrKind+sub+"/"+posClass(text, ref.ErrLine, ref.ErrCol, "f.yang:"+got), "text %q: first error %q, but the offending %s is at %s", text, first, ref.ErrKind, want)
	}
}

var anyPos = regexp.MustCompile(`([^\s:"]+\.yang):(-?\d+):(-?\d+)`)

func checkModule(c Case, o *ev.Outcome) {
	o.Key = fmt.Sprintf("m|%s|%v", c.Fault, c.Files)
	o.Sample = map[string]any{"fault": c.Fault, "expected": fmt.Sprintf("%s:%d:%d", c.ExpFile, c.ExpLine, c.ExpCol), "files": c.Files}
	starts := map[string]bool{}
	for _, f := range c.Files {
		ref := rfc6.Parse(f.Text)
		if !ref.OK || ref.OutOfClaim != "" {
			o.OutOfClaim = "module text not readable by the reference"
			return
		}
		var walk func(s []*rfc6.Stmt)
		walk = func(s []*rfc6.Stmt) {
			for _, x := range s {
				starts[fmt.Sprintf("%s:%d:%d", f.Name, x.Line, x.Col)] = true
				walk(x.Subs)
			}
		}
		walk(ref.Stmts)
	}
	// the set without the fault must load cleanly, otherwise the case is not single-fault
	if c.Fault != "none" {
		clean := false
		ev.Guard(o, "load base", func() {
			ms := yang.NewModules()
			for _, f := range c.Base {
				if err := ms.Parse(f.Text, f.Name); err != nil {
					return
				}
			}
			clean = len(c.Base) > 0 && len(ms.Process()) == 0
		})
		o.Violations = nil
		if !clean {
			o.OutOfClaim = "base module set (before the fault) does not load cleanly"
			return
		}
	}
	var all []string
	if !ev.Guard(o, "load and process", func() {
		ms := yang.NewModules()
		for _, f := range c.Files {
			if err := ms.Parse(f.Text, f.Name); err != nil {
				all = append(all, err.Error())
			}
		}
		if len(all) == 0 {
			for _, e := range ms.Process() {
				all = append(all, e.Error())
			}
		}
	}) {
		o.Violations = nil
		o.OutOfClaim = "panic while loading (C01)"
		return
	}
	o.Class("module/" + c.Fault)
	if len(all) == 0 {
		o.OutOfClaim = "fault not reported at all (acceptance is decided by C03/C09/C10/C14)"
		if c.Fault == "none" {
			o.OutOfClaim = "unfaulted base module (generator self-check)"
		}
		return
	}
	if c.Fault == "none" {
		// the generator is supposed to produce valid modules
		o.OutOfClaim = "generator produced a module that does not load cleanly: " + trunc(all[0], 80)
		return
	}
	o.NonTrivial = true
	exp := fmt.Sprintf("%s:%d:%d", c.ExpFile, c.ExpLine, c.ExpCol)
	leadingOK := false
	var leads []string
	for _, e := range all {
		ps := anyPos.FindAllString(e, -1)
		for _, p := range ps {
			if !starts[p] {
				o.Violate("position-is-statement-start", "C16/semantic/"+c.Fault+"/not-a-statement-start", "error %q names %s, which is not the start of a statement of that file (fault: %s, culprit at %s)", e, p, c.Fault, exp)
				return
			}
		}
		if len(ps) > 0 {
			leads = append(leads, ps[0])
			if ps[0] == exp {
				leadingOK = true
			}
		}
	}
	if len(leads) == 0 {
		o.OutOfClaim = "errors carry no position (nothing to judge)"
		o.NonTrivial = false
		return
	}
	if !leadingOK {
		o.Violate("position-names-culprit", "C16/semantic/"+c.Fault+"/wrong-statement", "fault %s at %s, but the reported errors lead with %v: %q", c.Fault, exp, leads, all)
	}
}

// checkHostile: malformed, contradictory, cyclic or incomplete module sets (the texts C01 feeds on), loaded and
// processed; whatever is reported, every file:line:col in it is the start of a statement of the file it names.
func checkHostile(c Case, o *ev.Outcome) {
	o.Key = fmt.Sprintf("h|%v", c.Files)
	o.Sample = map[string]any{"kind": "hostile", "generator": c.Fault, "files": c.Files}
	starts := map[string]bool{}
	names := map[string]bool{}
	for _, f := range c.Files {
		ref := rfc6.Parse(f.Text)
		if !ref.OK || ref.OutOfClaim != "" {
			o.OutOfClaim = "hostile text not readable by the reference (syntax faults are the business of the text domain)"
			return
		}
		names[f.Name] = true
		var walk func(s []*rfc6.Stmt)
		walk = func(s []*rfc6.Stmt) {
			for _, x := range s {
				starts[fmt.Sprintf("%s:%d:%d", f.Name, x.Line, x.Col)] = true
				walk(x.Subs)
			}
		}
		walk(ref.Stmts)
	}
	var all []string
	if !ev.Guard(o, "load and process", func() {
		ms := yang.NewModules()
		for _, f := range c.Files {
			if err := ms.Parse(f.Text, f.Name); err != nil {
				all = append(all, err.Error())
			}
		}
		for _, e := range ms.Process() {
			all = append(all, e.Error())
		}
	}) {
		o.Violations = nil
		o.OutOfClaim = "panic while loading (C01)"
		return
	}
	o.Class("hostile/" + c.Fault)
	npos := 0
	for _, e := range all {
		for _, m := range anyPos.FindAllStringSubmatch(e, -1) {
			if !names[m[1]] {
				continue // not one of the files handed over (a name inside an argument, say)
			}
			npos++
			if !starts[m[0]] {
				o.Violate("position-is-statement-start", "C16/semantic/hostile/not-a-statement-start", "error %q names %s, which is not the start of a statement of that file", trunc(e, 300), m[0])
				return
			}
		}
	}
	o.NonTrivial = npos > 0
	if npos == 0 {
		o.OutOfClaim = "no error with a position (nothing to judge)"
	}
}

func trunc(s string, n int) string {
	if len(s) > n {
		return s[:n]
	}
	return s
}

func check(c Case) (o ev.Outcome) {
	switch c.Kind {
	case "text":
		checkText(c, &o)
	case "module":
		checkModule(c, &o)
	case "hostile":
		checkHostile(c, &o)
	default:
		o.OutOfClaim = "unknown case kind"
	}
	return o
}

func enumerate(tier string, shard, shards int, emit func(Case) bool) bool {
	maxL := 6
	if tier == "thorough" {
		maxL = 7
	}
	return textgen.EnumTexts(maxL, shard, shards, func(s string) bool { return emit(Case{Kind: "text", Text: s}) })
}

// ---- generators ----

// injectLexFault plants one fault of a listed kind at a token-ish place of a valid text.
func injectLexFault(t *rapid.T, text string) string {
	rs := []rune(text)
	find := func(set string) []int {
		var at []int
		for i, r := range rs {
			if strings.ContainsRune(set, r) {
				at = append(at, i)
			}
		}
		return at
	}
	pick := func(at []int, label string) int { return at[rapid.IntRange(0, len(at)-1).Draw(t, label)] }
	switch rapid.IntRange(0, 6).Draw(t, "lex-fault") {
	case 0: // extra }
		i := rapid.IntRange(0, len(rs)).Draw(t, "at")
		return string(rs[:i]) + "}" + string(rs[i:])
	case 1: // drop a ; or {
		if at := find(";{"); len(at) > 0 {
			i := pick(at, "drop")
			return string(rs[:i]) + " " + string(rs[i+1:])
		}
	case 2: // invalid escape / backslash-newline inside some double-quoted string (or anywhere)
		if at := find("\""); len(at) > 0 {
			i := pick(at, "esc-at") + 1
			esc := rapid.SampledFrom([]string{"\\q", "\\\n", "\\é", "\\ ", "\\'"}).Draw(t, "esc")
			return string(rs[:i]) + esc + string(rs[i:])
		}
	case 3: // remove a quote
		if at := find("\"'"); len(at) > 0 {
			i := pick(at, "unquote")
			return string(rs[:i]) + string(rs[i+1:])
		}
	case 4: // break a comment terminator
		if i := strings.LastIndex(text, "*/"); i >= 0 {
			return text[:i] + text[i+2:]
		}
	case 5: // open a comment that never ends / an unterminated quote at the end
		return text + rapid.SampledFrom([]string{" /* x", " a \"b", " a 'b", "\n\t/*", " \"", "é'"}).Draw(t, "tail")
	}
	// quote a keyword-ish place: insert a quoted string after ; { }
	if at := find(";{}"); len(at) > 0 {
		i := pick(at, "kw-at") + 1
		q := rapid.SampledFrom([]string{"\"k\" x;", "'k';", " \"k\"{}"}).Draw(t, "quoted-kw")
		return string(rs[:i]) + q + string(rs[i:])
	}
	return "\"k\" x;" + text
}

func render(t *rapid.T, files []*textgen.File, plain bool) []FileText {
	var out []FileText
	for _, f := range files {
		p := rfc6.NewPrinter(textgen.Chooser{T: t})
		p.Plain = plain
		p.Forest(f.Forest)
		f.Text = p.String()
		out = append(out, FileText{Name: f.Name, Text: f.Text})
	}
	return out
}

var bogusKeywords = []string{"foo", "bogus-stmt", "Leaf", "x_y"}

// injectSemantic plants one semantic fault; it returns the culprit node
// (whose position the errors must name) and the file it is in.
func injectSemantic(t *rapid.T, files []*textgen.File) (fault string, culprit *rfc6.Node, file string) {
	type site struct {
		n, parent *rfc6.Node
		file      string
	}
	var all []site
	for _, f := range files {
		textgen.Walk(f.Forest, nil, func(n, p *rfc6.Node) { all = append(all, site{n, p, f.Name}) })
	}
	filter := func(pred func(s site) bool) []site {
		var out []site
		for _, s := range all {
			if pred(s) {
				out = append(out, s)
			}
		}
		return out
	}
	pick := func(ss []site, label string) site { return ss[rapid.IntRange(0, len(ss)-1).Draw(t, label)] }
	removeChild := func(p *rfc6.Node, k string) bool {
		for i, c := range p.Subs {
			if c.Keyword == k {
				p.Subs = append(p.Subs[:i:i], p.Subs[i+1:]...)
				return true
			}
		}
		return false
	}
	tbl := astinfo.Table()
	for attempt := 0; attempt < 4; attempt++ {
		switch rapid.IntRange(0, 7).Draw(t, "semantic-fault") {
		case 0, 1: // unknown substatement
			cands := filter(func(s site) bool { return tbl[s.n.Keyword] != nil && len(tbl[s.n.Keyword].Children) > 1 })
			if len(cands) == 0 {
				continue
			}
			s := pick(cands, "parent")
			var kw string
			if rapid.IntRange(0, 5).Draw(t, "cross-kind") == 0 {
				// a substatement that belongs to the other kind of (sub)module
				s = all[0]
				if rapid.Bool().Draw(t, "in-submodule") && files[len(files)-1].Forest[0].Keyword == "submodule" {
					s = filter(func(x site) bool { return x.n.Keyword == "submodule" })[0]
				}
				if s.n.Keyword == "module" {
					kw = "belongs-to"
				} else {
					kw = rapid.SampledFrom([]string{"namespace", "prefix"}).Draw(t, "submodule-foreign")
				}
			} else if rapid.Bool().Draw(t, "bogus") {
				kw = rapid.SampledFrom(bogusKeywords).Draw(t, "bogus-kw")
			} else {
				// a YANG keyword that this statement does not admit
				var inval []string
				for _, k := range astinfo.Keywords() {
					if tbl[s.n.Keyword].Child(k) == nil && k != "module" && k != "submodule" {
						inval = append(inval, k)
					}
				}
				kw = rapid.SampledFrom(inval).Draw(t, "foreign-kw")
			}
			bad := textgen.N(kw, "x")
			i := rapid.IntRange(0, len(s.n.Subs)).Draw(t, "insert-at")
			s.n.Subs = append(s.n.Subs[:i:i], append([]*rfc6.Node{bad}, s.n.Subs[i:]...)...)
			cls := "unknown-substatement"
			if (s.n.Keyword == "module" && kw == "belongs-to") || (s.n.Keyword == "submodule" && (kw == "namespace" || kw == "prefix")) {
				cls = "unknown-substatement/other-kind-of-module"
			}
			return cls, bad, s.file
		case 2: // missing mandatory substatement
			cands := filter(func(s site) bool {
				switch s.n.Keyword {
				case "leaf", "leaf-list", "typedef", "belongs-to", "module", "submodule":
					return true
				}
				return false
			})
			if len(cands) == 0 {
				continue
			}
			s := pick(cands, "victim")
			var k string
			switch s.n.Keyword {
			case "leaf", "leaf-list", "typedef":
				k = "type"
			case "belongs-to":
				k = "prefix"
			case "module":
				k = rapid.SampledFrom([]string{"namespace", "prefix"}).Draw(t, "mod-mandatory")
			case "submodule":
				k = "belongs-to"
			}
			if !removeChild(s.n, k) {
				continue
			}
			return "missing-mandatory/" + s.n.Keyword, s.n, s.file
		case 3: // unknown type name
			cands := filter(func(s site) bool { return s.n.Keyword == "type" && s.parent != nil && s.parent.Keyword != "type" })
			if len(cands) == 0 {
				continue
			}
			s := pick(cands, "type")
			s.n.Arg = rapid.SampledFrom([]string{"nosuch", "p:nosuch", "zz:nosuch", "String"}).Draw(t, "bad-type")
			s.n.Subs = nil
			where := s.parent.Keyword
			return "unknown-type/in-" + where, s.n, s.file
		case 4: // unknown grouping
			cands := filter(func(s site) bool {
				switch s.n.Keyword {
				case "container", "list", "grouping", "module", "submodule", "input", "notification", "case":
					return true
				}
				return false
			})
			if len(cands) == 0 {
				continue
			}
			s := pick(cands, "uses-parent")
			bad := textgen.N("uses", rapid.SampledFrom([]string{"nosuch", "p:nosuch"}).Draw(t, "bad-grouping"))
			s.n.Subs = append(s.n.Subs, bad)
			return "unknown-grouping/in-" + s.n.Keyword, bad, s.file
		case 5: // bad range / length
			cands := filter(func(s site) bool {
				if s.n.Keyword != "type" {
					return false
				}
				switch s.n.Arg {
				case "int8", "int32", "uint8", "uint16", "uint64", "string", "binary":
					return true
				}
				return false
			})
			if len(cands) == 0 {
				continue
			}
			s := pick(cands, "restricted")
			kw := "range"
			if s.n.Arg == "string" || s.n.Arg == "binary" {
				kw = "length"
			}
			removeChild(s.n, kw)
			bad := textgen.N(kw, rapid.SampledFrom([]string{"5..1", "abc", "1..", "-1..300000000000000000000", "1..2..3", "-5"}).Draw(t, "bad-restriction"))
			s.n.Subs = append(s.n.Subs, bad)
			return "bad-" + kw, bad, s.file
		default: // bad enum value
			cands := filter(func(s site) bool { return s.n.Keyword == "enum" })
			if len(cands) == 0 {
				continue
			}
			s := pick(cands, "enum")
			removeChild(s.n, "value")
			s.n.Subs = append(s.n.Subs, textgen.N("value", rapid.SampledFrom([]string{"2147483648", "-2147483649", "abc", "99999999999999999999"}).Draw(t, "bad-value")))
			return "bad-enum-value", s.n, s.file
		}
	}
	return "none", nil, ""
}

// farRight: in one text of 25 a statement with a very long argument stands in front, on the same line, so that what
// follows on that line has columns beyond 2^16 (a minified module is one such line).
func farRight(t *rapid.T) string {
	if rapid.IntRange(0, 24).Draw(t, "far-right") != 0 {
		return ""
	}
	n := rapid.SampledFrom([]int{65520, 65530, 65536, 65600, 70000, 131100}).Draw(t, "columns-in-front")
	return "k \"" + strings.Repeat("x", n) + "\"; "
}

func gen(t *rapid.T) Case {
	switch rapid.IntRange(0, 9).Draw(t, "domain") {
	case 0, 1: // accepted texts with rich layout
		f := textgen.Forest(t)
		return Case{Kind: "text", Text: farRight(t) + textgen.Render(t, f)}
	case 2, 3, 4: // one lexical/syntactic fault
		f := textgen.Forest(t)
		return Case{Kind: "text", Text: farRight(t) + injectLexFault(t, textgen.Render(t, f))}
	case 5: // module texts as position material (statement positions of real modules)
		files := textgen.ModuleSet(t)
		ft := render(t, files, false)
		return Case{Kind: "text", Text: ft[0].Text}
	case 6: // hostile sets: whatever they make goyang report
		hostile.MaxChain = 100
		h := hostile.Gen(t)
		c := Case{Kind: "hostile", Fault: h.Gen}
		for _, f := range h.Files {
			c.Files = append(c.Files, FileText{Name: f.Name, Text: f.Text})
		}
		return c
	default: // one semantic fault
		files := textgen.ModuleSet(t)
		if rapid.IntRange(0, 19).Draw(t, "unfaulted") == 0 {
			return Case{Kind: "module", Files: render(t, files, false), Fault: "none"}
		}
		base := render(t, files, true)
		fault, culprit, file := injectSemantic(t, files)
		ft := render(t, files, rapid.IntRange(0, 3).Draw(t, "plain-layout") == 0)
		c := Case{Kind: "module", Files: ft, Base: base, Fault: fault}
		if culprit != nil {
			c.ExpFile, c.ExpLine, c.ExpCol = file, culprit.Line, culprit.Col
		}
		if rapid.IntRange(0, 3).Draw(t, "odd-file-names") == 0 {
			// file names are data: percent signs, directories and other characters must come back unchanged
			dress := rapid.SampledFrom([]string{"models/ietf%%2D%s", "a%%s-%s", "%%d%%v%s", "dir.d/%s", "x+y~%s", "%%!%s"}).Draw(t, "name-dress")
			re := func(n string) string { return fmt.Sprintf(dress, n) }
			for i := range c.Files {
				c.Files[i].Name = re(c.Files[i].Name)
			}
			for i := range c.Base {
				c.Base[i].Name = re(c.Base[i].Name)
			}
			if c.ExpFile != "" {
				c.ExpFile = re(c.ExpFile)
			}
		}
		return c
	}
}

func TestCheck(t *testing.T) {
	_ = sort.Strings
	_ = strconv.Itoa
	ev.Run(t, ev.Spec[Case]{
		ID:        "C16",
		Level:     "exploration",
		RiskyCase: func(c Case) bool { return c.Kind != "text" },
		Rule: "three domains. (1) accepted texts: Statement.Location() of every statement against the keyword position computed by the harness's RFC 7950 section 6 reader (characters, 1-based), on all texts of <= L fragments over the 16-fragment alphabet and on printed forests/modules with tabs, multi-byte characters, comments, multi-line strings and CRLF; " +
			"(2) rejected texts whose first fault is of a listed kind (unexpected }, missing ; or {, quoted keyword, invalid escape, unterminated quote/comment) and that are single-fault in the sense that goyang's one-token look-ahead cannot meet a second lexical fault first: position in the first error line against the position of the offending token/backslash/opener, exhaustive over the same alphabet plus targeted fault injection into printed texts; " +
			"(3) generated valid modules (+ included submodule), a quarter of them under file names with percent signs, directories and other odd characters, with one injected semantic fault (unknown substatement, missing mandatory substatement, unknown type, unknown grouping, bad range/length, bad enum value): every file:line:col in every returned error must be the start of a statement of that file and some error must lead with the culprit's position; " +
			"(4) a tenth of the random cases: the malformed, contradictory, cyclic and incomplete module sets that C01 feeds on (mutated valid sets, keyword soup, hostile templates), judged by the first of these two clauses only. " +
			"Non-trivial = accepted text with >= 2 statements or a statement not at 1:1; any judged rejected text; any module whose fault was reported with a position. Distinct by text / files",
		Assumptions: []string{
			"end-of-input reports and cascaded errors after the first line are not judged (property text)",
			"texts on whose acceptance goyang and the reference disagree are left to C02",
			"an injected semantic fault that goyang does not report at all, or reports without a position, is counted but not judged here",
			"the AST keyword table read by reflection only steers fault injection",
		},
		Check:     check,
		Gen:       gen,
		Enumerate: enumerate,
		EnumNote: func(tier string) string {
			if tier == "thorough" {
				return "all texts of <= 7 fragments over the 16-fragment alphabet"
			}
			return "all texts of <= 6 fragments over the 16-fragment alphabet"
		},
	})
}
