// C12 — config inheritance and namespace attribution follow the instantiated tree.
package c12

import (
	"bytes"
	"sort"
	"strings"
	"testing"

	"github.com/openconfig/goyang/pkg/yang"

	"pgregory.net/rapid"

	"verif/lib/canon"
	"verif/lib/ev"
	"verif/lib/schema"
	"verif/lib/ymodel"
	"verif/lib/yref"
)

type Case struct {
	Set   *ymodel.Set `json:"set"`
	Order []int       `json:"order,omitempty"`
	// StoreUses: the option that keeps the uses statements on the entries is set (the trees are the same)
	StoreUses bool `json:"store_uses,omitempty"`
	// Fetch: these sources are not handed over; they wait in a search-path directory and are fetched by Process
	Fetch []string `json:"fetch,omitempty"`
}

func check(c Case) (o ev.Outcome) {
	if c.Set == nil {
		o.OutOfClaim = "empty case"
		return
	}
	srcs := schema.Sources(c.Set, c.Order)
	if c.Set.OlderText() != nil {
		o.Class("older-revision-also-loaded")
	}
	if len(c.Fetch) > 0 {
		o.Class("one-module-fetched-from-search-path")
	}
	for _, m := range c.Set.Modules {
		for _, a := range m.Augments {
			if strings.Contains(a.Nodes[0].Name, "late") {
				o.Class("augment-at-or-below-implicit-case")
			}
		}
	}
	o.Sample = map[string]any{"order": c.Order, "sources": srcs}
	var obs *schema.Observed
	if !ev.Guard(&o, "load+process", func() {
		obs = schema.LoadFetched(srcs, c.Fetch, func(ms *yang.Modules) { ms.ParseOptions.StoreUses = c.StoreUses })
	}) {
		o.Violations = nil
		o.OutOfClaim = "crash while loading (C01)"
		return
	}
	r := yref.New(c.Set)
	trees := r.Expand()
	if len(r.Problems) > 0 {
		o.OutOfClaim = "generated set has problems by the reference (harness)"
		return
	}
	if !obs.Clean() {
		o.OutOfClaim = "valid set rejected (judged by C06/C07/C09): " + schema.ErrClass(obs.ErrText())
		return
	}
	// what does the set exercise?
	explicit, foreignCopies, subContent, output := 0, 0, 0, 0
	for name, t := range trees {
		if m := c.Set.Find(name); m == nil || m.IsSub {
			continue
		}
		for _, x := range yref.Paths(t) {
			if x.Config != nil {
				explicit++
			}
			if x.CopySteps > 0 {
				foreignCopies++
			}
			if x.Kind == ymodel.KOutput {
				output++
			}
		}
	}
	for _, m := range c.Set.Modules {
		if m.IsSub && len(m.Nodes) > 0 {
			subContent++
		}
	}
	if explicit > 0 {
		o.Class("explicit-config")
	}
	if foreignCopies > 0 {
		o.Class("copied-nodes")
	}
	if subContent > 0 {
		o.Class("submodule-content")
	}
	if output > 0 {
		o.Class("rpc-output")
	}
	o.NonTrivial = (explicit > 0 || output > 0) && (foreignCopies > 0 || subContent > 0)
	ev.Guard(&o, "compare", func() {
		schema.CompareModules(&o, c.Set, obs, trees, canon.DiffOpts{NS: true, ReadOnly: true}, "C12", "derived-attributes")
	})
	if len(o.Violations) > 0 {
		return o
	}
	// The same facts through other doors. (1) The tree of a submodule taken on its own: content written in a
	// submodule belongs to the owning module, by namespace and by instantiating module. (2) The rendering of a
	// module tree marks every node RO or rw: the marks, in print order, are the read-only states of the nodes.
	ev.Guard(&o, "secondary observation points", func() {
		for _, m := range c.Set.Modules {
			if !m.IsSub {
				continue
			}
			owner := c.Set.Find(m.BelongsTo)
			sm := obs.MS.SubModules[m.Name]
			if owner == nil || sm == nil {
				continue
			}
			var walk func(e *yang.Entry) bool
			walk = func(e *yang.Entry) bool {
				if e.Parent != nil {
					if ns := e.Namespace(); ns == nil || ns.Name != owner.Namespace {
						o.Violate("namespace", "C12/submodule-tree/namespace", "tree of submodule %s taken on its own: %s reports namespace %v, the owning module's is %s", m.Name, e.Path(), ns, owner.Namespace)
						return false
					}
					if im, err := e.InstantiatingModule(); err != nil || im != owner.Name {
						o.Violate("instantiating-module", "C12/submodule-tree/instantiating-module", "tree of submodule %s taken on its own: %s reports instantiating module %q (%v), the owning module is %s", m.Name, e.Path(), im, err, owner.Name)
						return false
					}
				}
				names := make([]string, 0, len(e.Dir))
				for k := range e.Dir {
					names = append(names, k)
				}
				sort.Strings(names)
				for _, k := range names {
					if !walk(e.Dir[k]) {
						return false
					}
				}
				return true
			}
			if !walk(yang.ToEntry(sm)) {
				return
			}
		}
		for _, m := range c.Set.Modules {
			t := trees[m.Name]
			mm := obs.MS.Modules[m.Name]
			if m.IsSub || t == nil || t.Root == nil || mm == nil {
				continue
			}
			var want []bool
			var names []string
			var wwalk func(x *yref.XNode, top bool)
			wwalk = func(x *yref.XNode, top bool) {
				want = append(want, x.ReadOnly)
				names = append(names, x.Name)
				keys := make([]string, 0, len(x.Children))
				for k := range x.Children {
					keys = append(keys, k)
				}
				sort.Strings(keys)
				for _, k := range keys {
					wwalk(x.Children[k], false)
				}
			}
			wwalk(t.Root, true)
			var buf bytes.Buffer
			yang.ToEntry(mm).Print(&buf)
			var got []bool
			for _, ln := range strings.Split(buf.String(), "\n") {
				ln = strings.TrimLeft(ln, " ")
				switch {
				case strings.HasPrefix(ln, "RO: "):
					got = append(got, true)
				case strings.HasPrefix(ln, "rw: "):
					got = append(got, false)
				}
			}
			if len(got) != len(want) {
				continue // another shape than the reference's: not this clause
			}
			o.Class("rendering-marks-compared")
			for i := range want {
				if got[i] != want[i] {
					o.Violate("read-only", "C12/rendering/read-only-mark", "rendering of module %s: node #%d in print order (%s) is marked read-only=%v, it is %v", m.Name, i, names[i], got[i], want[i])
					return
				}
			}
		}
	})
	return o
}

func gen(t *rapid.T) Case {
	o := ymodel.DefaultOpts()
	o.Typedefs = rapid.IntRange(0, 3).Draw(t, "typedefs") == 0
	o.ConfigTrueAnywhere = rapid.Bool().Draw(t, "config-true-anywhere")
	set, _ := schema.Generate(t, o)
	schema.AddAugments(t, set, 0, 3)
	if rapid.IntRange(0, 5).Draw(t, "augment-chain") == 0 {
		// a chain of augments over new modules (or a module and its submodules taking turns), named and written
		// in another order than the chain
		schema.AddAugmentChain(t, set)
	}
	if rapid.IntRange(0, 2).Draw(t, "late") == 0 {
		// augments of the implicit case of a shorthand choice member and of what lies below it
		schema.AddLateAugments(t, set, 2)
	}
	c := Case{Set: set}
	if rapid.Bool().Draw(t, "permute") {
		c.Order = schema.Order(t, len(set.Modules))
	}
	c.StoreUses = rapid.IntRange(0, 3).Draw(t, "store-uses") == 0
	c.Fetch = schema.PlanFetch(t, set)
	return c
}

func TestCheck(t *testing.T) {
	ev.Run(t, ev.Spec[Case]{
		ID:    "C12",
		Level: "exploration",
		Rule: "module sets from the schema model with explicit config statements at random depths of the data tree (never inside rpc/action/notification; 'true' only where no enclosing node says false; groupings contain only 'false' and groupings with config are not used inside operations), combined with uses across modules and submodules, augments (also into config-false subtrees, choices and cases, rpc input/output; in a third of the sets up to two augments of the implicit case of a leaf or leaf-list member or of a container/list below an implicit case), submodule content, choice/case and rpc/action/notification; in a fifth of the sets an older revision of one of the modules (same namespace, other content, referred to by nothing) is loaded as well, first or last. " +
			"Oracle: for every node of every module tree ReadOnly(), Namespace().Name and InstantiatingModule() equal the reference attributes computed on the expanded model (nearest explicit config on the path or inside an output; module whose text placed the node: user of a grouping, augmenter, owner of a submodule). " +
			"Non-trivial = the set has an explicit config or an rpc/action output, and nodes that were copied (uses/augment) or written in a submodule; distinct by (set, order)",
		Assumptions: []string{
			"the namespace of implicit case nodes is not judged (they have no text of their own); their config and read-only are",
			"the implicit case of a container or list member is not used as augment target (until the cases are inserted that path names the member itself: the library's design, outside C07)",
			"config statements below an rpc/action/notification are not generated (RFC 7950 ignores them)",
			"sets goyang rejects are judged elsewhere",
		},
		Check: check,
		Gen:   gen,
		Risky: true,
	})
}
