// C18 — re-processing, incremental loading and failed loads do not skew results.
package c18

import (
	"encoding/json"
	"fmt"
	"os"
	"path/filepath"
	"sort"
	"strings"
	"testing"

	"github.com/openconfig/goyang/pkg/yang"
	"pgregory.net/rapid"

	"verif/lib/canon"
	"verif/lib/ev"
	"verif/lib/hostile"
	"verif/lib/rfc6"
	"verif/lib/schema"
	"verif/lib/ymodel"
	"verif/lib/yref"
)

type Op struct {
	Kind string `json:"kind"` // good | good-disk | bad | bad-disk | dup | process | read | getmodule
	Idx  int    `json:"idx,omitempty"`
}

type Case struct {
	Good []ymodel.Source `json:"good"` // mutually consistent texts, one (sub)module each
	Bad  []ymodel.Source `json:"bad"`  // texts whose load must fail
	Ops  []Op            `json:"ops"`
	// Hostile: the pool holds mutated, wrong and cyclic texts (generators of C01); a pool text that is rejected
	// at load counts as a failed load.
	Hostile bool `json:"hostile,omitempty"`
}

// dump renders everything observable of a processed set: trees with types
// and attributes, identity value lists.
func dump(ms *yang.Modules) string {
	var b strings.Builder
	for _, reg := range []map[string]*yang.Module{ms.Modules, ms.SubModules} {
		names := make([]string, 0, len(reg))
		for k := range reg {
			names = append(names, k)
		}
		sort.Strings(names)
		for _, k := range names {
			m := reg[k]
			var problems []string
			x := canon.Entry(yang.ToEntry(m), canon.Opts{Attrs: m.Kind() == "module"}, &problems)
			j, _ := json.Marshal(x)
			fmt.Fprintf(&b, "%s: %s %v\n", k, j, problems)
			for _, id := range m.Identity {
				fmt.Fprintf(&b, "  identity %s:", id.Name)
				for _, v := range id.Values {
					fmt.Fprintf(&b, " %s:%s", canon.OwnerName(v), v.Name)
				}
				b.WriteByte('\n')
			}
		}
	}
	lookups(ms, &b)
	return b.String()
}

// lookups adds the answers to a fixed battery of path queries to the dump: from the root and the first top-level
// nodes of every loaded text (modules and submodules, every revision), the absolute paths /<prefix>:<name> for the
// text's own prefix and every import prefix and for the names of top-level nodes found anywhere in the set. The
// answer is recorded as the text that holds the tree it lies in and its path there. Only prefixes the text can
// resolve are used, and no rpc input/output is asked for, so the queries write nothing.
func lookups(ms *yang.Modules, b *strings.Builder) {
	nameSet := map[string]bool{}
	type text struct {
		key string
		m   *yang.Module
	}
	var texts []text
	for ri, reg := range []map[string]*yang.Module{ms.Modules, ms.SubModules} {
		for k, m := range reg {
			texts = append(texts, text{fmt.Sprintf("%d/%s", ri, k), m})
			for n := range yang.ToEntry(m).Dir {
				nameSet[n] = true
			}
		}
	}
	sort.Slice(texts, func(i, j int) bool { return texts[i].key < texts[j].key })
	names := make([]string, 0, len(nameSet))
	for n := range nameSet {
		names = append(names, n)
	}
	sort.Strings(names)
	if len(names) > 10 {
		names = names[:10]
	}
	where := func(e *yang.Entry) string {
		if e == nil {
			return "nothing"
		}
		r := e
		for r.Parent != nil {
			r = r.Parent
		}
		held := "?"
		if mod, ok := r.Node.(*yang.Module); ok && mod != nil {
			held = mod.Kind() + " " + mod.FullName()
		}
		return held + " " + e.Path()
	}
	for _, t := range texts {
		root := yang.ToEntry(t.m)
		var prefixes []string
		if p := t.m.GetPrefix(); p != "" {
			prefixes = append(prefixes, p)
		}
		for _, im := range t.m.Import {
			if im.Prefix != nil && im.Module != nil {
				prefixes = append(prefixes, im.Prefix.Name)
			}
		}
		starts := []*yang.Entry{root}
		kids := make([]string, 0, len(root.Dir))
		for k := range root.Dir {
			kids = append(kids, k)
		}
		sort.Strings(kids)
		fromSub := 0
		for i, k := range kids {
			c := root.Dir[k]
			switch {
			case i < 2:
				starts = append(starts, c)
			case c.Node != nil && yang.RootNode(c.Node) != nil && yang.RootNode(c.Node).Kind() == "submodule" && fromSub < 2 && t.m.Kind() == "module":
				// a node of the module's tree whose statement stands in a submodule text
				starts = append(starts, c)
				fromSub++
			}
		}
		for si, st := range starts {
			if st.Node == nil {
				continue
			}
			for _, p := range prefixes {
				for _, n := range names {
					got := st.Find("/" + p + ":" + n)
					if got != nil {
						fmt.Fprintf(b, "  find %s start#%d /%s:%s -> %s\n", t.key, si, p, n, where(got))
					}
				}
			}
		}
	}
}

// read issues read-only style queries (some of which create input/output on demand).
func read(ms *yang.Modules) {
	for _, m := range ms.Modules {
		e := yang.ToEntry(m)
		var walk func(e *yang.Entry)
		walk = func(e *yang.Entry) {
			e.ReadOnly()
			e.Namespace()
			e.Path()
			e.DefaultValues()
			for _, c := range e.Dir {
				walk(c)
			}
			if e.RPC != nil {
				e.Find("input")
				e.Find("output")
			}
		}
		walk(e)
		e.GetErrors()
	}
}

type result struct {
	errs []string
	dump string
}

func processAndDump(ms *yang.Modules) result {
	errs := ms.Process()
	r := result{errs: canon.ErrStrings(errs)}
	if len(errs) == 0 {
		r.dump = dump(ms)
	}
	return r
}

func (a result) diff(b result) string {
	if fmt.Sprint(a.errs) != fmt.Sprint(b.errs) {
		return fmt.Sprintf("errors differ: %q vs %q", a.errs, b.errs)
	}
	if a.dump != b.dump {
		la, lb := strings.Split(a.dump, "\n"), strings.Split(b.dump, "\n")
		for i := 0; i < len(la) && i < len(lb); i++ {
			if la[i] != lb[i] {
				// show the surroundings of the first differing byte
				k := 0
				for k < len(la[i]) && k < len(lb[i]) && la[i][k] == lb[i][k] {
					k++
				}
				from := k - 120
				if from < 0 {
					from = 0
				}
				cut := func(s string) string {
					to := k + 160
					if to > len(s) {
						to = len(s)
					}
					return s[from:to]
				}
				return fmt.Sprintf("trees differ at dump line %d, byte %d: ...%s vs ...%s", i, k, cut(la[i]), cut(lb[i]))
			}
		}
		return "trees differ in length"
	}
	return ""
}

func check(c Case) (o ev.Outcome) {
	o.Sample = c
	var kinds []string
	for _, op := range c.Ops {
		kinds = append(kinds, op.Kind)
	}
	hist := strings.Join(kinds, ",")
	o.Key = fmt.Sprintf("%v|%s", c.Ops, sourcesKey(c))
	var loaded []ymodel.Source // the model: good texts accepted so far, in order
	isLoaded := map[string]bool{}
	nProcess, processAfterBad, goodBetween := 0, false, false
	nGet := 0
	sawBad, sawGoodSinceProcess := false, false
	var last *result
	lastBadKind := ""
	diskDir := ""
	fromDisk := map[string]bool{} // accepted texts that were read from diskDir (Modules.Read puts it on the search path)
	needDir := func() {
		if diskDir != "" {
			return
		}
		d, err := ev.MkdirTemp("verif-c18-")
		if err != nil {
			panic(err)
		}
		diskDir = d
		for _, g := range c.Good {
			os.WriteFile(filepath.Join(diskDir, g.Name), []byte(g.Text), 0o644)
		}
	}
	// freshLoad hands the accepted texts to a fresh set the way the history did
	freshLoad := func(x *yang.Modules) bool {
		for _, s := range loaded {
			var err error
			if fromDisk[s.Name] {
				err = x.Read(filepath.Join(diskDir, s.Name))
			} else {
				err = x.Parse(s.Text, s.Name)
			}
			if err != nil {
				return false
			}
		}
		return true
	}
	defer func() {
		if diskDir != "" {
			os.RemoveAll(diskDir)
		}
	}()
	ev.Guard(&o, "history", func() {
		ms := yang.NewModules()
		for i, op := range c.Ops {
			switch op.Kind {
			case "good":
				if op.Idx < 0 || op.Idx >= len(c.Good) || isLoaded[c.Good[op.Idx].Name] {
					continue
				}
				src := c.Good[op.Idx]
				if err := ms.Parse(src.Text, src.Name); err != nil {
					if len(fromDisk) > 0 {
						// an earlier Process may have fetched this very module from the directory
						isLoaded[src.Name] = true
						continue
					}
					if c.Hostile {
						isLoaded[src.Name] = true
						sawBad, lastBadKind = true, "hostile-text"
						continue
					}
					o.OutOfClaim = "a text of the consistent pool was rejected at load (judged elsewhere)"
					return
				}
				loaded = append(loaded, src)
				isLoaded[src.Name] = true
				last = nil
				sawGoodSinceProcess = true
			case "good-disk":
				// a text of the pool is read from the directory (which thereby comes onto the search path: what
				// is missing is fetched from there, in the history as in the fresh set that reads the same file)
				if op.Idx < 0 || op.Idx >= len(c.Good) || isLoaded[c.Good[op.Idx].Name] || c.Hostile {
					continue
				}
				needDir()
				src := c.Good[op.Idx]
				if err := ms.Read(filepath.Join(diskDir, src.Name)); err != nil {
					if len(fromDisk) > 0 {
						// an earlier Process may have fetched this very module from the directory
						isLoaded[src.Name] = true
						continue
					}
					o.OutOfClaim = "a text of the consistent pool was rejected at load (judged elsewhere)"
					return
				}
				loaded = append(loaded, src)
				isLoaded[src.Name], fromDisk[src.Name] = true, true
				last = nil
				sawGoodSinceProcess = true
			case "dup":
				// loading an already loaded text again must fail
				if len(loaded) == 0 {
					continue
				}
				src := loaded[op.Idx%len(loaded)]
				if err := ms.Parse(src.Text, src.Name); err == nil {
					o.Violate("failed-load-reports", "C18/duplicate-load-accepted", "op %d: loading %s a second time returned no error", i, src.Name)
					return
				}
				sawBad, lastBadKind = true, "duplicate"
			case "bad":
				if op.Idx < 0 || op.Idx >= len(c.Bad) {
					continue
				}
				src := c.Bad[op.Idx]
				if err := ms.Parse(src.Text, src.Name); err == nil {
					o.OutOfClaim = "a text meant to be rejected was accepted (harness)"
					return
				}
				sawBad, lastBadKind = true, badKind(src.Name)
			case "bad-disk":
				// the bad text lies in a directory, beside files of every text of the pool, and is read from there
				// (Modules.Read with its path): the load fails, and what the set fetches afterwards - nothing, no
				// directory was ever put on the search path - is what a set that never saw the file fetches
				if op.Idx < 0 || op.Idx >= len(c.Bad) || c.Hostile {
					continue
				}
				needDir()
				src := c.Bad[op.Idx]
				os.WriteFile(filepath.Join(diskDir, src.Name), []byte(src.Text), 0o644)
				if err := ms.Read(filepath.Join(diskDir, src.Name)); err == nil {
					o.OutOfClaim = "a text meant to be rejected was accepted (harness)"
					return
				}
				sawBad, lastBadKind = true, badKind(src.Name)+"/read-from-a-directory"
			case "getmodule":
				// the one-call door: GetModule processes whatever is loaded and hands out the module's tree; it
				// must give what a fresh set with the same accepted texts gives through the same door
				if len(fromDisk) > 0 {
					continue // the set may hold fetched modules that the fresh set fetches only when it processes
				}
				var names []string
				for k := range ms.Modules {
					if !strings.Contains(k, "@") {
						names = append(names, k)
					}
				}
				if len(names) == 0 {
					continue
				}
				sort.Strings(names)
				name := names[op.Idx%len(names)]
				one := func(x *yang.Modules) string {
					e, errs := x.GetModule(name)
					if len(errs) > 0 {
						return fmt.Sprintf("errors: %q", canon.ErrStrings(errs))
					}
					var problems []string
					j, _ := json.Marshal(canon.Entry(e, canon.Opts{Attrs: true}, &problems))
					return fmt.Sprintf("%s %v", j, problems)
				}
				fresh := yang.NewModules()
				if !freshLoad(fresh) {
					o.OutOfClaim = "fresh load of the accepted texts failed (harness)"
					return
				}
				var want string
				var tmp ev.Outcome
				if !ev.Guard(&tmp, "fresh GetModule", func() { want = one(fresh) }) {
					o.OutOfClaim = "the batch run of the accepted texts itself crashes (decided by C01)"
					return
				}
				got := one(ms)
				nGet++
				if got != want {
					cause := "plain"
					switch {
					case sawBad:
						cause = "after-failed-load/" + lastBadKind
					case nProcess+nGet >= 2:
						cause = "after-earlier-process"
					}
					k := 0
					for k < len(got) && k < len(want) && got[k] == want[k] {
						k++
					}
					lo := k - 100
					if lo < 0 {
						lo = 0
					}
					cut := func(x string) string {
						hi := k + 160
						if hi > len(x) {
							hi = len(x)
						}
						return x[lo:hi]
					}
					o.Violate("equals-batch-run", "C18/getmodule-differs-from-batch/"+cause, "history %s: after op %d GetModule(%q) differs from a fresh set with the same %d accepted texts at byte %d: ...%s vs ...%s", hist, i, name, len(loaded), k, cut(got), cut(want))
					return
				}
				last = nil
			case "read":
				// entries may only be built after Process has run on everything loaded (documented precondition)
				if last != nil && len(last.errs) == 0 {
					read(ms)
				}
			case "process":
				{
					// a history that crashes exactly where the batch run crashes is C01's business
					pre := yang.NewModules()
					ok := freshLoad(pre)
					var tmp ev.Outcome
					if ok && !ev.Guard(&tmp, "fresh batch", func() { processAndDump(pre) }) {
						o.OutOfClaim = "the batch run of the accepted texts itself crashes (decided by C01)"
						return
					}
				}
				got := processAndDump(ms)
				nProcess++
				if sawBad {
					processAfterBad = true
				}
				if nProcess >= 2 && sawGoodSinceProcess {
					goodBetween = true
				}
				sawGoodSinceProcess = false
				// fresh batch
				fresh := yang.NewModules()
				if !freshLoad(fresh) {
					o.OutOfClaim = "fresh load of the accepted texts failed (harness)"
					return
				}
				var want result
				var tmp ev.Outcome
				if !ev.Guard(&tmp, "fresh batch", func() { want = processAndDump(fresh) }) {
					o.OutOfClaim = "the batch run of the accepted texts itself crashes (decided by C01)"
					return
				}
				if d := got.diff(want); d != "" {
					cause := "plain"
					switch {
					case sawBad:
						cause = "after-failed-load/" + lastBadKind
					case nProcess >= 2:
						cause = "after-earlier-process"
					}
					o.Violate("equals-batch-run", "C18/differs-from-batch/"+cause, "history %s: after op %d (process #%d) the result differs from a fresh set with the same %d accepted texts: %s", hist, i, nProcess, len(loaded), d)
					return
				}
				if last != nil {
					if d := got.diff(*last); d != "" {
						o.Violate("idempotent", "C18/reprocess-differs", "history %s: two consecutive processing runs differ: %s", hist, d)
						return
					}
				}
				last = &got
			}
		}
	})
	for i := range o.Violations {
		if strings.HasPrefix(o.Violations[i].Sig, "panic/") {
			cause := "plain"
			if sawBad {
				cause = "after-failed-load/" + lastBadKind
			} else if nProcess >= 1 {
				cause = "after-earlier-process"
			}
			o.Violations[i].Sig = "C18/" + o.Violations[i].Sig + "/" + cause
			o.Violations[i].Detail = "history " + hist + ": " + o.Violations[i].Detail
		}
	}
	if processAfterBad {
		o.Class("process-after-failed-load")
	}
	if goodBetween {
		o.Class("load-between-processes")
	}
	o.NonTrivial = processAfterBad || goodBetween
	return o
}

func sourcesKey(c Case) string {
	var n []string
	for _, s := range c.Good {
		n = append(n, s.Name, fmt.Sprint(len(s.Text)))
	}
	h := 0
	for _, s := range c.Good {
		for _, ch := range s.Text {
			h = h*31 + int(ch)
		}
	}
	return fmt.Sprintf("%v#%d", n, h)
}

func badKind(name string) string {
	switch {
	case strings.HasPrefix(name, "syntax"):
		return "syntax-error"
	case strings.HasPrefix(name, "rejsub"):
		return "rejected-submodule-with-inner-typedef"
	case strings.HasPrefix(name, "rej"):
		return "rejected-module-with-inner-typedef"
	}
	return "other"
}

func badTexts(t *rapid.T, set *ymodel.Set) []ymodel.Source {
	owner := "m1"
	return []ymodel.Source{
		{Name: "syntax1.yang", Text: "module syntax1 { namespace \"urn:x\"; prefix x; leaf l { type string; }"},
		{Name: "syntax2.yang", Text: "module syntax2 { namespace \"urn:x\"; prefix x; leaf l { type \"string; } }"},
		{Name: "rej1.yang", Text: "module rej1 {\n namespace \"urn:rej1\";\n prefix r;\n container c {\n  typedef tleak { type nosuch-type; }\n  leaf x { type tleak; }\n }\n bogus-statement x;\n}\n"},
		{Name: "rej2.yang", Text: "module rej2 {\n namespace \"urn:rej2\";\n prefix r;\n typedef ta { type string; }\n list l {\n  key k;\n  typedef tb { type r:nope; }\n  leaf k { type string; }\n  type int8;\n }\n}\n"},
		{Name: "rejsub1.yang", Text: "submodule rejsub1 {\n belongs-to " + owner + " { prefix r; }\n container c {\n  typedef tleak2 { type nosuch-type; }\n }\n bogus-statement x;\n}\n"},
		{Name: "rej3.yang", Text: "module rej3 {\n namespace \"urn:rej3\";\n prefix r;\n grouping g { typedef tg { type uint8 { range \"5..1\"; } } leaf y { type tg; } }\n leaf z { type string; type string; }\n}\n"},
	}
}

func gen(t *rapid.T) Case {
	o := ymodel.DefaultOpts()
	o.Budget = 14
	o.Posix = true  // posix-pattern statements of openconfig-extensions in string types
	o.Extras = true // must, when, status, reference, presence and extension statements on nodes, uses and augments
	schema.AugmentExtras = true
	set, _ := schema.Generate(t, o)
	schema.AddAugments(t, set, 0, 2)
	schema.AddIdentities(t, set, 5)
	r := yref.New(set)
	r.Expand()
	c := Case{Good: set.Texts(), Bad: badTexts(t, set)}
	if rapid.IntRange(0, 4).Draw(t, "hostile-pool") == 0 {
		hostile.MaxChain = 300
		h := hostile.Gen(t)
		c.Good, c.Hostile = nil, true
		seen := map[string]bool{}
		for _, f := range h.Files {
			if ref := rfc6.Parse(f.Text); ref.OK && len(ref.Stmts) != 1 {
				continue // several top-level statements in one text: the earlier ones stay loaded (documented)
			}
			if !seen[f.Name] {
				seen[f.Name] = true
				c.Good = append(c.Good, ymodel.Source{Name: f.Name, Text: f.Text})
			}
		}
		if len(c.Good) == 0 {
			c.Good, c.Hostile = set.Texts(), false
		}
	}
	famFrom, famTo := -1, -1
	if rapid.IntRange(0, 2).Draw(t, "revision-family") == 0 {
		// several revisions of one module, and modules that import it with and without a revision-date: what
		// the bare name and the prefix denote changes when a later revision is loaded after a processing run
		dates := []string{"2019-05-05", "2020-01-01", "2021-12-31"}
		kinds := []string{"string", "int32", "boolean"}
		n := rapid.IntRange(2, 3).Draw(t, "revisions")
		// the oldest member may be a text without revision statement, which a dated one supersedes
		undated := rapid.IntRange(0, 2).Draw(t, "oldest-without-revision") == 0
		// the members may include a submodule that holds an identity and a typedef they build on
		withSub := rapid.Bool().Draw(t, "family-submodule")
		// a family without a single typedef (and nothing else in the pool): whatever is remembered per typedef
		// or per "the typedefs were resolved" has nothing to hang on
		bare := rapid.IntRange(0, 3).Draw(t, "family-without-typedefs") == 0
		if bare {
			c.Good, c.Hostile, withSub = nil, false, false
		}
		dropInclude := withSub && rapid.Bool().Draw(t, "latest-drops-include")
		datedInclude := withSub && rapid.Bool().Draw(t, "older-revisions-include-with-date")
		sub2 := withSub && undated && rapid.Bool().Draw(t, "second-submodule-of-the-undated-text")
		famFrom = len(c.Good)
		for i := 0; i < n; i++ {
			name, rev, inc, viaSub := "fam@"+dates[i]+".yang", " revision "+dates[i]+";\n", "", ""
			if i == 0 && undated {
				name, rev = "fam.yang", ""
			}
			if withSub {
				inc = " include famsub;\n"
				if i < n-1 && datedInclude {
					// the older revisions stay with the first revision of the submodule
					inc = " include famsub { revision-date 2019-05-05; }\n"
				}
				if i == 0 && undated && sub2 {
					// only the text without revision includes a second submodule
					inc += " include famsub2;\n"
				}
				viaSub = fmt.Sprintf(" identity viasub%d { base sid; }\n leaf vs { type st; }\n typedef stu { type union { type st; type int8; } }\n leaf vsu { type stu; }\n", i)
				if dropInclude && i == n-1 {
					// the latest revision no longer includes the submodule and defines its identity itself
					inc, viaSub = "", " identity subsame { base fb:root; }\n identity subother { base fb:root; }\n"
				}
			}
			if bare {
				c.Good = append(c.Good, ymodel.Source{Name: name, Text: fmt.Sprintf("module fam {\n namespace \"urn:fam\";\n prefix f;\n import fambase { prefix fb; }\n%s grouping g { leaf from-r%d { type %s; } }\n identity id;\n identity sub%d { base id; }\n leaf ll { type identityref { base id; } }\n container c%d { leaf own { type %s; } }\n container c { }\n}\n", rev, i, kinds[i], i, i, kinds[i])})
				continue
			}
			c.Good = append(c.Good, ymodel.Source{Name: name, Text: fmt.Sprintf("module fam {\n namespace \"urn:fam\";\n prefix f;\n import fambase { prefix fb; }\n%s%s typedef t { type %s; units \"r%d\"; }\n typedef n { type int32 { range \"%d..%d\"; } }\n typedef s { type string { length \"%d..%d\"; } }\n grouping g { leaf from-r%d { type t; } }\n identity id;\n identity sub%d { base id; }\n typedef lt { type identityref { base id; } }\n leaf ll { type lt; }\n%s container c%d { leaf own { type t; } }\n container c { }\n}\n", inc, rev, kinds[i], i, 10*i, 100-10*i, i, 20-i, i, i, viaSub, i)})
		}
		c.Good = append(c.Good, ymodel.Source{Name: "fambase.yang", Text: "module fambase {\n namespace \"urn:fambase\";\n prefix fb;\n identity root;\n leaf rr { type identityref { base root; } }\n}\n"})
		if sub2 {
			// a submodule that only the family member without revision includes: an identity with a local base and
			// an augment of the module's container (both ask which revision of fam the submodule's text belongs to)
			c.Good = append(c.Good, ymodel.Source{Name: "famsub2.yang", Text: "submodule famsub2 {\n belongs-to fam { prefix f; }\n identity s2base;\n identity s2d { base s2base; }\n leaf s2ref { type identityref { base s2base; } }\n augment \"/f:c\" { leaf from-sub2 { type string; } }\n}\n"})
		}
		if withSub {
			c.Good = append(c.Good, ymodel.Source{Name: "famsub@2019-05-05.yang", Text: "submodule famsub {\n belongs-to fam { prefix f; }\n import fambase { prefix fb; }\n revision 2019-05-05;\n identity subsame { base fb:root; }\n identity subother { base fb:root; }\n identity sid;\n identity sd19 { base sid; }\n typedef st { type identityref { base sid; } }\n typedef sonly19 { type string; units \"only-2019\"; }\n leaf insub { type st; }\n}\n"})
			if rapid.Bool().Draw(t, "later-submodule-revision") {
				// a later revision of the submodule may arrive after a processing run and supersede the first
				c.Good = append(c.Good, ymodel.Source{Name: "famsub@2021-12-31.yang", Text: "submodule famsub {\n belongs-to fam { prefix f; }\n import fambase { prefix fb; }\n revision 2021-12-31;\n identity subsame { base fb:root; }\n identity subother { base fb:root; }\n identity sid;\n identity sd21 { base sid; }\n typedef st { type identityref { base sid; } units \"later\"; }\n leaf insub { type st; }\n leaf insub21 { type st; }\n}\n"})
			}
		}
		if bare {
			c.Good = append(c.Good, ymodel.Source{Name: "famuser.yang", Text: "module famuser {\n namespace \"urn:famuser\";\n prefix u;\n import fam { prefix f; }\n container k { uses f:g; }\n grouping lg { uses f:g; }\n container k2 { uses lg; }\n leaf r { type identityref { base f:id; } }\n leaf ru { type union { type identityref { base f:id; } type int8; } }\n identity mine { base f:id; }\n augment \"/f:c\" { leaf added { type string; } }\n}\n"})
		} else {
			// the importer reaches the family's definitions through a varying selection of shapes
			user := "module famuser {\n namespace \"urn:famuser\";\n prefix u;\n import fam { prefix f; }\n leaf l { type f:t; }\n container k { uses f:g; }\n"
			// the typedefs of the family's submodule, reached through the prefix of the module: one that every
			// revision of the submodule has, one that only the first revision has
			subShape, subOnly := "", ""
			if withSub {
				subShape = " leaf viast { type f:st; }\n typedef tst { type f:st; }\n leaf viatst { type tst; }\n"
				subOnly = " leaf viasonly { type f:sonly19; }\n"
			}
			for _, sn := range []string{
				" grouping lg { uses f:g; leaf viat { type f:t; } }\n container k2 { uses lg; }\n",
				" leaf r { type identityref { base f:id; } }\n",
				" typedef tid { type identityref { base f:id; } }\n leaf viatd { type tid; }\n",
				" typedef tt { type f:t; }\n leaf viatt { type tt; }\n typedef tt3 { type tt; }\n leaf viatt3 { type tt3; }\n",
				" identity mine { base f:id; }\n",
				" augment \"/f:c\" { leaf added { type string; } }\n",
				" typedef tu { type union { type f:t; type int8; } }\n leaf viatu { type tu; }\n typedef tu2 { type tu; }\n leaf viatu2 { type tu2; }\n",
				" typedef tuu { type union { type union { type f:t; type f:lt; } type uint8; } }\n leaf-list viatuu { type tuu; }\n",
				" leaf lu { type union { type f:t; type f:lt; } }\n",
				" container kk { typedef inner { type f:t; } typedef inneru { type union { type inner; } } leaf x { type inner; } leaf y { type inneru; } }\n",
				" rpc op { input { uses f:g; leaf a { type f:t; } } output { typedef ot { type union { type f:t; } } leaf b { type ot; } } }\n",
				" choice ch { case ca { uses f:g; } leaf cb { type f:lt; } }\n",
				" notification ev { leaf-list n { type f:t; } }\n",
				" augment \"/f:c\" { container viaaug { uses f:g; leaf at { type f:t; } } }\n",
				// restrictions whose meaning depends on the revision's own range and length (min and max are the
				// parent's bounds; 40..60 and 5..9 lie within every revision's set, 5..95 and 1..19 only within the
				// oldest one's)
				" typedef nn { type f:n { range \"min..max\"; } }\n leaf viann { type nn; }\n leaf vn { type f:n { range \"40..60\"; } }\n",
				" leaf vnmin { type f:n { range \"min..50 | 55..max\"; } }\n leaf vsl { type f:s { length \"min..max\"; } }\n typedef ss { type f:s { length \"5..9\"; } }\n leaf viass { type ss; }\n",
				" leaf vnwide { type f:n { range \"5..95\"; } }\n",
				" leaf vswide { type f:s { length \"1..19\"; } }\n",
				subShape,
				subOnly,
			} {
				if rapid.IntRange(0, 3).Draw(t, "user-shape") != 0 {
					user += sn
				}
			}
			c.Good = append(c.Good, ymodel.Source{Name: "famuser.yang", Text: user + "}\n"})
		}
		if rapid.Bool().Draw(t, "dated-user") {
			lo := 0
			if undated {
				lo = 1
			}
			d := dates[rapid.IntRange(lo, n-1).Draw(t, "dated-user-revision")]
			l := " leaf l { type f:t; }\n typedef du { type union { type f:t; } }\n leaf dl { type du; }\n"
			if bare {
				l = " leaf l { type identityref { base f:id; } }\n"
			}
			c.Good = append(c.Good, ymodel.Source{Name: "famuser2.yang", Text: fmt.Sprintf("module famuser2 {\n namespace \"urn:famuser2\";\n prefix u;\n import fam { prefix f; revision-date %s; }\n%s container k { uses f:g; }\n augment \"/f:c\" { leaf added2 { type string; } }\n}\n", d, l)})
		}
	}
	if famFrom >= 0 {
		famTo = len(c.Good)
	}
	if !c.Hostile && rapid.IntRange(0, 5).Draw(t, "namespace-twin") == 0 && len(set.Modules) > 0 {
		// a module of another name, without revision, that claims the namespace of a module of the pool: what a
		// namespace lookup answered before it arrived must not be remembered
		var first *ymodel.Module
		for _, m := range set.Modules {
			if !m.IsSub {
				first = m
				break
			}
		}
		if first != nil {
			c.Good = append(c.Good, ymodel.Source{Name: "nstwin.yang", Text: fmt.Sprintf("module nstwin {\n namespace %s;\n prefix nt;\n container twinc { leaf x { type string; } }\n}\n", ymodel.Q(first.Namespace))})
		}
	}
	order := schema.Order(t, len(c.Good))
	maxOps := 12
	if famFrom >= 0 {
		maxOps = 16
		if rapid.IntRange(0, 2).Draw(t, "family-first") != 0 {
			// the texts of the family come first (in the order drawn), so that the history plays among them
			var fam, rest []int
			for _, i := range order {
				if i >= famFrom && i < famTo {
					fam = append(fam, i)
				} else {
					rest = append(rest, i)
				}
			}
			order = append(fam, rest...)
		}
	}
	next := 0
	if famFrom >= 0 && famTo-famFrom >= 2 && rapid.IntRange(0, 2).Draw(t, "one-family-text-arrives-late") == 0 {
		// scripted opening: every family text but one is loaded (in the order drawn) and processed, then the
		// last one arrives - a later revision of the module or of its submodule, the text without revision, the
		// base module, an importer - and everything is processed again; the drawn operations follow
		var fam, rest []int
		for _, i := range order {
			if i >= famFrom && i < famTo {
				fam = append(fam, i)
			} else {
				rest = append(rest, i)
			}
		}
		late := rapid.IntRange(0, len(fam)-1).Draw(t, "late-text")
		for k, i := range fam {
			if k != late {
				c.Ops = append(c.Ops, Op{Kind: "good", Idx: i})
			}
		}
		c.Ops = append(c.Ops, Op{Kind: "process"})
		if rapid.Bool().Draw(t, "read-before-the-late-text") {
			c.Ops = append(c.Ops, Op{Kind: "read"})
		}
		c.Ops = append(c.Ops, Op{Kind: "good", Idx: fam[late]}, Op{Kind: "process"})
		order, next = append(fam, rest...), len(fam)
	}
	dated := false // some module of the pool comes in two revisions (file names with a date)
	for _, g := range c.Good {
		if strings.Contains(g.Name, "@") {
			dated = true
		}
	}
	n := rapid.IntRange(2, maxOps).Draw(t, "ops")
	for i := 0; i < n; i++ {
		switch rapid.IntRange(0, 9).Draw(t, "op") {
		case 0, 1, 2:
			if next < len(order) {
				kind := "good"
				// (not in pools that hold two revisions of a module: what an import fetches from a directory depends, by design,
				// on which revisions are loaded at that moment)
				if famFrom < 0 && !dated && rapid.IntRange(0, 3).Draw(t, "good-text-read-from-a-directory") == 0 {
					kind = "good-disk"
				}
				c.Ops = append(c.Ops, Op{Kind: kind, Idx: order[next]})
				next++
			} else {
				c.Ops = append(c.Ops, Op{Kind: "process"})
			}
		case 3, 4:
			kind := "bad"
			if rapid.IntRange(0, 3).Draw(t, "bad-text-read-from-a-directory") == 0 {
				kind = "bad-disk"
			}
			c.Ops = append(c.Ops, Op{Kind: kind, Idx: rapid.IntRange(0, len(c.Bad)-1).Draw(t, "bad-text")})
		case 5:
			c.Ops = append(c.Ops, Op{Kind: "dup", Idx: rapid.IntRange(0, 7).Draw(t, "dup-of")})
		case 6:
			c.Ops = append(c.Ops, Op{Kind: "read"})
		case 7, 8:
			c.Ops = append(c.Ops, Op{Kind: "getmodule", Idx: rapid.IntRange(0, 7).Draw(t, "getmodule-of")})
		default:
			c.Ops = append(c.Ops, Op{Kind: "process"})
		}
	}
	if rapid.Bool().Draw(t, "getmodule-at-the-end") {
		c.Ops = append(c.Ops, Op{Kind: "getmodule", Idx: rapid.IntRange(0, 7).Draw(t, "last-getmodule-of")})
	}
	c.Ops = append(c.Ops, Op{Kind: "process"})
	return c
}

func TestCheck(t *testing.T) {
	ev.Run(t, ev.Spec[Case]{
		ID:    "C18",
		Level: "exploration",
		Rule: "operation histories of 3-17 steps on one module set: load(next text of a pool of mutually consistent single-(sub)module texts from the schema model - a third of the pools also hold 2-3 revisions of one module (a quarter of these families without any typedef and alone in the pool; with a submodule in half, whose include the latest revision may drop while defining the submodule's identity itself) with a base module and modules importing the family with and without revision-date, reaching its typedef, grouping and identity through a drawn selection of shapes (typedef chains, union typedefs, nested and inline unions, scoped typedefs, rpc input/output, choice, notification, augments); the family texts come first in two thirds of these pools (and in a third of the family pools a scripted opening loads all family texts but one, processes, then loads the last and processes again) - in a random order so that imports and includes are often not yet loaded and later revisions arrive after a processing run; a fifth of the pools consist of the wrong, cyclic and mutated texts of C01's generators, where a pool text rejected at load counts as a failed load), load(bad text: syntax error; module or submodule rejected by a later statement after an inner node with a typedef was already built; a duplicate of a loaded text; a quarter of the bad texts and an eighth of the good ones are read with Modules.Read from a directory that also holds files of every text of the pool; a good text read from there brings the directory onto the search path, in the history as in the fresh set), process, read (accessors and path lookups that create rpc input/output on demand), getmodule (Modules.GetModule of a loaded name, compared with the same call on a fresh set). " +
			"Oracle (model = list of accepted good texts): after every process the error list and, when it is empty, the complete dump (trees of all modules and submodules with types, attributes and identity value lists) equal those of a fresh set into which exactly the accepted texts were loaded in the same order and processed once; two consecutive process runs give equal results; every bad load returns an error. " +
			"Non-trivial = a process after a failed load, or a process after a load that followed an earlier process; distinct by (texts, operation sequence)",
		Assumptions: []string{
			"texts holding several modules are not used (earlier modules of a failing text stay loaded, documented)",
			"revisions of one module name appear only in the dedicated family (2-3 dated revisions, an undated and a dated importer); the other texts carry none",
		},
		Check: check,
		Gen:   gen,
		Risky: true,
	})
}
