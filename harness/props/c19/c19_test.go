// C19 — independent module sets and concurrent readers do not interfere.
// Built with -race. Every case runs in a child process (the test binary
// re-executed) so that a race report on stderr is attributed to the case.
package c19

import (
	"bytes"
	"encoding/json"
	"fmt"
	"io"
	"os"
	"os/exec"
	"path/filepath"
	"regexp"
	"sort"
	"strings"
	"sync"
	"testing"
	"time"

	"github.com/openconfig/goyang/pkg/yang"
	"pgregory.net/rapid"

	"verif/lib/canon"
	"verif/lib/ev"
	"verif/lib/schema"
	"verif/lib/ymodel"
	"verif/lib/yref"
)

type Case struct {
	Mode string `json:"mode"` // "pipelines" | "readers"
	// Erroneous: (readers) the set holds unknown groupings and types, so that entries carry errors of their own
	// and of their descendants; it is read although processing reports errors.
	Erroneous  bool              `json:"erroneous,omitempty"`
	Sets       [][]ymodel.Source `json:"sets"` // pipelines: distinct sets; readers: Sets[0]
	Goroutines int               `json:"goroutines"`
	Rounds     int               `json:"rounds"`
	// Paths: absolute prefixed paths of existing nodes, with the module whose root they are looked up from
	Paths []PathQ `json:"paths,omitempty"`
	Seed  uint32  `json:"seed"`
	// FromDisk (pipelines): 0 = every text is handed over; 1 = imported modules are fetched from a directory of
	// the pipeline's own on the search path; 2 = from a directory below a dir/... entry
	FromDisk int `json:"from_disk,omitempty"`
}

type PathQ struct {
	From string `json:"from"`
	// Start: the lookup starts at this top-level child of From's tree (written in From's own text or in the
	// text of one of its submodules, whose prefixes the path then uses); empty = at the root
	Start string `json:"start,omitempty"`
	Path  string `json:"path"`
}

type childResult struct {
	Mismatch string `json:"mismatch,omitempty"`
	Queries  int    `json:"queries"`
	FirstNS  int    `json:"first_time_namespace_lookups"`
	// ThroughIO: rounds in which every reader began with a lookup through the input or output of an operation
	ThroughIO int    `json:"rounds_with_lookups_through_input_output,omitempty"`
	Panic     string `json:"panic,omitempty"`
}

func dumpSet(ms *yang.Modules) string {
	var b strings.Builder
	names := make([]string, 0, len(ms.Modules))
	for k := range ms.Modules {
		names = append(names, k)
	}
	sort.Strings(names)
	for _, k := range names {
		var problems []string
		x := canon.Entry(yang.ToEntry(ms.Modules[k]), canon.Opts{Attrs: true}, &problems)
		j, _ := json.Marshal(x)
		fmt.Fprintf(&b, "%s %s %v\n", k, j, problems)
		for _, id := range ms.Modules[k].Identity {
			fmt.Fprintf(&b, " id %s:", id.Name)
			for _, v := range id.Values {
				fmt.Fprintf(&b, " %s", v.Name)
			}
			b.WriteByte('\n')
		}
	}
	return b.String()
}

var importRE = regexp.MustCompile(`import\s+([A-Za-z0-9_.-]+)\s*\{`)

// pipeline loads and processes one set. fromDisk 0: every text is handed over. 1: all texts are also written to a
// fresh directory of the pipeline's own, which is put on the search path; the modules that another text imports
// (and that carry no revision in their file name) are not handed over but fetched by Process. 2: the same with the
// files one level further down and the directory given as dir/... .
func pipeline(srcs []ymodel.Source, fromDisk int) string {
	ms := yang.NewModules()
	skip := map[string]bool{}
	dir := ""
	if fromDisk > 0 {
		d, err := ev.MkdirTemp("verif-c19-")
		if err != nil {
			return "no scratch directory: " + err.Error()
		}
		dir = d
		defer os.RemoveAll(dir)
		where := dir
		if fromDisk == 2 {
			where = filepath.Join(dir, "sub", "deeper")
			os.MkdirAll(where, 0o755)
			ms.AddPath(filepath.Join(dir, "..."))
		} else {
			ms.AddPath(dir)
		}
		imported := map[string]bool{}
		for _, s := range srcs {
			for _, m := range importRE.FindAllStringSubmatch(s.Text, -1) {
				imported[m[1]] = true
			}
		}
		for _, s := range srcs {
			os.WriteFile(filepath.Join(where, filepath.Base(s.Name)), []byte(s.Text), 0o644)
			if n := strings.TrimSuffix(s.Name, ".yang"); imported[n] && strings.HasPrefix(strings.TrimSpace(s.Text), "module ") {
				skip[s.Name] = true
			}
		}
	}
	clean := func(x string) string {
		if dir != "" {
			x = strings.ReplaceAll(x, dir, "<dir>")
		}
		return x
	}
	for _, s := range srcs {
		if skip[s.Name] {
			continue
		}
		if err := ms.Parse(s.Text, s.Name); err != nil {
			return clean("parse error: " + err.Error())
		}
	}
	if errs := ms.Process(); len(errs) > 0 {
		return clean(fmt.Sprintf("errors: %v", errs))
	}
	return clean(dumpSet(ms))
}

// runPipelines: N goroutines, each the full pipeline on its own set.
func runPipelines(c Case) childResult {
	var res childResult
	want := make([]string, len(c.Sets))
	for round := 0; round < c.Rounds; round++ {
		got := make([]string, c.Goroutines)
		var wg sync.WaitGroup
		start := make(chan struct{})
		for g := 0; g < c.Goroutines; g++ {
			wg.Add(1)
			go func(g int) {
				defer wg.Done()
				<-start
				got[g] = pipeline(c.Sets[g%len(c.Sets)], c.FromDisk)
			}(g)
		}
		close(start)
		wg.Wait()
		res.Queries += c.Goroutines
		if round == 0 {
			// sequential reference, after the concurrent round
			for i, s := range c.Sets {
				want[i] = pipeline(s, c.FromDisk)
			}
		}
		for g := range got {
			if got[g] != want[g%len(c.Sets)] && res.Mismatch == "" {
				res.Mismatch = fmt.Sprintf("pipeline %d in round %d differs from the sequential run of the same set", g, round)
			}
		}
	}
	return res
}

type query struct {
	kind string
	arg  int
}

// answers runs the query list against a processed set; order is the
// permutation in which this reader issues them. Results are stored by query index.
func answers(ms *yang.Modules, entries []*yang.Entry, paths []PathQ, qs []query, order []int) []string {
	out := make([]string, len(qs))
	for _, qi := range order {
		q := qs[qi]
		switch q.kind {
		case "entry":
			names := make([]string, 0, len(ms.Modules))
			for k := range ms.Modules {
				names = append(names, k)
			}
			sort.Strings(names)
			e := yang.ToEntry(ms.Modules[names[q.arg%len(names)]])
			out[qi] = e.Name
		case "find":
			p := paths[q.arg%len(paths)]
			e := yang.ToEntry(ms.Modules[p.From])
			if p.Start != "" && e != nil {
				e = e.Dir[p.Start]
			}
			e = e.Find(p.Path)
			if e == nil {
				out[qi] = "nil"
			} else {
				out[qi] = e.Path()
			}
		case "ns":
			e := entries[q.arg%len(entries)]
			out[qi] = e.Namespace().Name
		case "im":
			e := entries[q.arg%len(entries)]
			m, err := e.InstantiatingModule()
			out[qi] = fmt.Sprint(m, err)
		case "bynamespace":
			e := entries[q.arg%len(entries)]
			m, err := ms.FindModuleByNamespace(e.Namespace().Name)
			if m != nil {
				out[qi] = m.Name
			} else {
				out[qi] = fmt.Sprint(err)
			}
		case "ro":
			out[qi] = fmt.Sprint(entries[q.arg%len(entries)].ReadOnly())
		case "defaults":
			out[qi] = fmt.Sprint(entries[q.arg%len(entries)].DefaultValues())
		case "errors":
			out[qi] = fmt.Sprint(entries[q.arg%len(entries)].GetErrors())
		case "path":
			out[qi] = entries[q.arg%len(entries)].Path()
		case "print":
			var b bytes.Buffer
			entries[q.arg%len(entries)].Print(&b)
			out[qi] = fmt.Sprint(b.Len())
		}
	}
	return out
}

func collectEntries(ms *yang.Modules) []*yang.Entry {
	var out []*yang.Entry
	names := make([]string, 0, len(ms.Modules))
	for k := range ms.Modules {
		names = append(names, k)
	}
	sort.Strings(names)
	var walk func(e *yang.Entry)
	walk = func(e *yang.Entry) {
		out = append(out, e)
		keys := make([]string, 0, len(e.Dir))
		for k := range e.Dir {
			keys = append(keys, k)
		}
		sort.Strings(keys)
		for _, k := range keys {
			walk(e.Dir[k])
		}
		if e.RPC != nil {
			if e.RPC.Input != nil {
				walk(e.RPC.Input)
			}
			if e.RPC.Output != nil {
				walk(e.RPC.Output)
			}
		}
	}
	for _, k := range names {
		walk(yang.ToEntry(ms.Modules[k]))
	}
	return out
}

func lcg(x *uint32) uint32 {
	*x = *x*1664525 + 1013904223
	return *x >> 8
}

// loadProcessed loads and processes a set. With erroneous, a set whose processing reports errors is read all
// the same (the error accessors are among the read operations).
func loadProcessed(srcs []ymodel.Source, erroneous bool) (*yang.Modules, error) {
	ms := yang.NewModules()
	for _, s := range srcs {
		if err := ms.Parse(s.Text, s.Name); err != nil {
			return nil, err
		}
	}
	if errs := ms.Process(); len(errs) > 0 && !erroneous {
		return nil, fmt.Errorf("%v", errs)
	}
	return ms, nil
}

// runReaders: one processed set, N readers issuing shuffled queries.
func runReaders(c Case) childResult {
	var res childResult
	kinds := []string{"entry", "find", "ns", "im", "im", "bynamespace", "ro", "defaults", "errors", "path", "print"}
	for round := 0; round < c.Rounds; round++ {
		ms, err := loadProcessed(c.Sets[0], c.Erroneous)
		if err != nil {
			res.Mismatch = "set does not process cleanly: " + err.Error()
			return res
		}
		entries := collectEntries(ms)
		seed := c.Seed + uint32(round)*7919
		nq := 60
		qs := make([]query, nq)
		for i := range qs {
			k := kinds[lcg(&seed)%uint32(len(kinds))]
			if k == "find" && len(c.Paths) == 0 {
				k = "path"
			}
			qs[i] = query{k, int(lcg(&seed) % 4096)}
		}
		// make sure first-time namespace lookups are issued simultaneously: the first query of every reader
		qs[0] = query{"im", int(lcg(&seed) % 4096)}
		// ... and the second a lookup that leads through the input or output of an operation, when there is one
		// (they stand first in c.Paths): the other half of the operation must be left alone
		nIO := 0
		for nIO < len(c.Paths) && (strings.Contains(c.Paths[nIO].Path, ":input/") || strings.Contains(c.Paths[nIO].Path, ":output/")) {
			nIO++
		}
		if nIO > 0 && nq > 2 {
			qs[1] = query{"find", int(lcg(&seed) % uint32(nIO))}
			res.ThroughIO++
		}
		got := make([][]string, c.Goroutines)
		var wg sync.WaitGroup
		start := make(chan struct{})
		for g := 0; g < c.Goroutines; g++ {
			order := make([]int, nq)
			for i := range order {
				order[i] = i
			}
			s := seed + uint32(g)*104729
			for i := nq - 1; i > 2; i-- { // queries 0 and 1 stay first
				j := 2 + int(lcg(&s)%uint32(i-1))
				order[i], order[j] = order[j], order[i]
			}
			wg.Add(1)
			go func(g int, order []int) {
				defer wg.Done()
				<-start
				got[g] = answers(ms, entries, c.Paths, qs, order)
			}(g, order)
		}
		close(start)
		wg.Wait()
		res.Queries += nq * c.Goroutines
		res.FirstNS += c.Goroutines
		// sequential reference on a fresh processed set
		ms2, _ := loadProcessed(c.Sets[0], c.Erroneous)
		seq := make([]int, nq)
		for i := range seq {
			seq[i] = i
		}
		want := answers(ms2, collectEntries(ms2), c.Paths, qs, seq)
		for g := range got {
			for i := range want {
				if got[g][i] != want[i] && res.Mismatch == "" {
					res.Mismatch = fmt.Sprintf("reader %d, query %d (%s): got %q, the sequential run gives %q", g, i, qs[i].kind, got[g][i], want[i])
				}
			}
		}
	}
	return res
}

func child() {
	var c Case
	b, _ := io.ReadAll(os.Stdin)
	if err := json.Unmarshal(b, &c); err != nil {
		fmt.Println("RESULT {\"panic\":\"bad case\"}")
		return
	}
	var res childResult
	func() {
		defer func() {
			if r := recover(); r != nil {
				res.Panic = fmt.Sprint(r)
			}
		}()
		if c.Mode == "pipelines" {
			res = runPipelines(c)
		} else {
			res = runReaders(c)
		}
	}()
	j, _ := json.Marshal(res)
	fmt.Printf("RESULT %s\n", j)
}

var raceFn = regexp.MustCompile(`(?m)^  (github\.com/openconfig/goyang[^\s(]*(?:\([^)]*\))?[^\s(]*)\(`)

func raceSignature(stderr string) string {
	i := strings.Index(stderr, "WARNING: DATA RACE")
	if i < 0 {
		return ""
	}
	rep := stderr[i:]
	if j := strings.Index(rep, "=================="); j > 0 {
		rep = rep[:j]
	}
	parts := strings.SplitN(rep, "Previous ", 2)
	fn := func(s string) string {
		m := raceFn.FindStringSubmatch(s)
		if m == nil {
			return "?"
		}
		f := strings.TrimPrefix(m[1], "github.com/openconfig/goyang/pkg/")
		return regexp.MustCompile(`\.func\d+(\.\d+)*$`).ReplaceAllString(f, "")
	}
	a := fn(parts[0])
	bb := "?"
	if len(parts) > 1 {
		bb = fn(parts[1])
	}
	fs := []string{a, bb}
	sort.Strings(fs)
	return fs[0] + "+" + fs[1]
}

// withoutIO drops the lookups that lead through an input or output.
func withoutIO(ps []PathQ) []PathQ {
	var keep []PathQ
	for _, p := range ps {
		if !strings.Contains(p.Path, ":input") && !strings.Contains(p.Path, ":output") {
			keep = append(keep, p)
		}
	}
	return keep
}

func check(c Case) (o ev.Outcome) {
	if c.Erroneous {
		c.Paths = withoutIO(c.Paths) // see gen: no augment is applied in such a set
	}
	self := os.Getenv("VERIF_SELF")
	if self == "" {
		self, _ = os.Executable()
	}
	b, _ := json.Marshal(c)
	cmd := exec.Command(self, "-test.run=^TestCheck$", "-test.count=1", "-test.timeout=0")
	cmd.Env = append(os.Environ(), "VERIF_CHILD=1", "GORACE=halt_on_error=0 exitcode=66", "GOMAXPROCS=8")
	cmd.Stdin = bytes.NewReader(b)
	var stdout, stderr bytes.Buffer
	cmd.Stdout, cmd.Stderr = &stdout, &stderr
	done := make(chan error, 1)
	if err := cmd.Start(); err != nil {
		panic(fmt.Sprintf("cannot start child: %v", err))
	}
	go func() { done <- cmd.Wait() }()
	select {
	case <-done:
	case <-time.After(10 * time.Minute):
		cmd.Process.Kill()
		o.OutOfClaim = "child exceeded its budget (inconclusive)"
		return
	}
	o.Key = string(b)
	o.Sample = map[string]any{"mode": c.Mode, "goroutines": c.Goroutines, "rounds": c.Rounds, "sets": len(c.Sets), "sources_of_first_set": c.Sets[0], "paths": len(c.Paths)}
	o.Class("mode/" + c.Mode)
	switch c.FromDisk {
	case 1:
		o.Class("pipelines-fetch-imports-from-disk")
	case 2:
		o.Class("pipelines-fetch-imports-from-a-recursive-search-path-entry")
	}
	all := stdout.String() + stderr.String()
	if sig := raceSignature(all); sig != "" {
		i := strings.Index(all, "WARNING: DATA RACE")
		rep := all[i:]
		if len(rep) > 1800 {
			rep = rep[:1800]
		}
		o.Violate("no-data-race", "C19/data-race/"+c.Mode+"/"+sig, "the race detector reports:\n%s", rep)
		o.NonTrivial = true
		return
	}
	var res childResult
	found := false
	for _, ln := range strings.Split(stdout.String(), "\n") {
		if strings.HasPrefix(ln, "RESULT ") {
			found = json.Unmarshal([]byte(strings.TrimPrefix(ln, "RESULT ")), &res) == nil
		}
	}
	if !found {
		tailS := all
		if len(tailS) > 1500 {
			tailS = tailS[len(tailS)-1500:]
		}
		o.Violate("no-crash", "C19/child-died/"+c.Mode, "the child process ended without a result: %s", tailS)
		return
	}
	if res.Panic != "" {
		o.Violate("no-panic", "C19/panic/"+c.Mode, "panic under concurrency: %s", res.Panic)
		return
	}
	if strings.HasPrefix(res.Mismatch, "set does not process cleanly") {
		o.OutOfClaim = "generated set does not process cleanly (judged elsewhere)"
		return
	}
	if res.Mismatch != "" {
		o.Violate("sequential-result", "C19/result-differs/"+c.Mode, "%s", res.Mismatch)
		return
	}
	o.NonTrivial = c.Goroutines >= 2 && res.Queries > 0
	if res.ThroughIO > 0 {
		o.Class("readers-begin-with-a-lookup-through-input-or-output")
	}
	return o
}

// belowIOFirst puts the lookups that lead through the input or output of an operation in front (up to twelve), so
// that the cut to 40 keeps them: such a lookup must not touch the other half of the operation.
func belowIOFirst(ps []PathQ) []PathQ {
	var io, rest []PathQ
	for _, p := range ps {
		if len(io) < 12 && (strings.Contains(p.Path, ":input/") || strings.Contains(p.Path, ":output/")) {
			io = append(io, p)
		} else {
			rest = append(rest, p)
		}
	}
	return append(io, rest...)
}

func genSet(t *rapid.T) (*ymodel.Set, []PathQ) {
	o := ymodel.DefaultOpts()
	o.Budget = 18
	o.Posix = true // posix-pattern statements of openconfig-extensions in string types
	set, _ := schema.Generate(t, o)
	schema.AddAugments(t, set, 0, 2)
	schema.AddIdentities(t, set, 5)
	if rapid.Bool().Draw(t, "one-sided-operation") {
		// an rpc of which only the input, or only the output, is written: looking a node up below that half is a
		// read and leaves the other half alone
		var mods []*ymodel.Module
		for _, m := range set.Modules {
			if !m.IsSub {
				mods = append(mods, m)
			}
		}
		m := mods[rapid.IntRange(0, len(mods)-1).Draw(t, "one-sided-in")]
		side := rapid.SampledFrom([]string{ymodel.KInput, ymodel.KOutput}).Draw(t, "one-sided-half")
		m.Nodes = append(m.Nodes, &ymodel.Node{Kind: ymodel.KRPC, Name: "op-one-sided", Body: ymodel.Body{Nodes: []*ymodel.Node{{Kind: side, Body: ymodel.Body{Nodes: []*ymodel.Node{
			{Kind: ymodel.KLeaf, Name: "arg", Type: &ymodel.TypeRef{Name: "string"}},
			{Kind: ymodel.KContainer, Name: "more", Body: ymodel.Body{Nodes: []*ymodel.Node{{Kind: ymodel.KLeaf, Name: "arg2", Type: &ymodel.TypeRef{Name: "int32"}}}}},
		}}}}}})
	}
	r := yref.New(set)
	trees := r.Expand()
	var paths []PathQ
	if len(r.Problems) == 0 {
		for _, m := range set.Modules {
			if m.IsSub {
				continue
			}
			for _, tg := range schema.AllNodes(set, trees, m) {
				// never name an input or output itself (when it is not written, the lookup would create it: a write);
				// nodes below one are named: that input or output exists, the other half of the operation may not
				if tg.Node.Kind == ymodel.KInput || tg.Node.Kind == ymodel.KOutput {
					continue
				}
				paths = append(paths, PathQ{From: m.Name, Path: tg.Path})
			}
		}
	}
	paths = belowIOFirst(paths)
	if len(paths) > 40 {
		paths = paths[:40]
	}
	if len(r.Problems) == 0 {
		// lookups that start at an inner node: a top-level node written in a module or in one of its
		// submodules; absolute paths are spelled with the prefixes of the text that holds the start node
		var inner []PathQ
		for _, m := range set.Modules {
			owner := set.Owner(m)
			if owner == nil {
				owner = m
			}
			var starts []string
			for _, n := range m.Nodes {
				switch n.Kind {
				case ymodel.KContainer, ymodel.KList, ymodel.KLeaf, ymodel.KLeafList:
					starts = append(starts, n.Name)
				}
			}
			if len(starts) == 0 {
				continue
			}
			k := 0
			for _, tg := range schema.AllNodes(set, trees, m) {
				if tg.Node.Kind == ymodel.KInput || tg.Node.Kind == ymodel.KOutput {
					continue
				}
				inner = append(inner, PathQ{From: owner.Name, Start: starts[k%len(starts)], Path: tg.Path})
				if k++; k >= 12 {
					break
				}
			}
			// relative: from one top-level node to another of the same tree
			for i, a := range starts {
				inner = append(inner, PathQ{From: owner.Name, Start: a, Path: "../" + starts[(i+1)%len(starts)]})
			}
		}
		inner = belowIOFirst(inner)
		if len(inner) > 40 {
			inner = inner[:40]
		}
		paths = append(paths, inner...)
		// from the older revision loaded beside the set: a node whose statement stands in the submodule that only
		// the older revision includes (own-prefix paths lead into that revision's tree), and its root
		if mm := set.Find(set.Older); mm != nil && set.OlderText() != nil {
			from := set.Older + "@2019-05-05"
			for _, st := range []string{"oldsub-c", "older-only", ""} {
				paths = append(paths,
					PathQ{From: from, Start: st, Path: "/" + mm.Prefix + ":older-only"},
					PathQ{From: from, Start: st, Path: "/" + mm.Prefix + ":oldsub-c/" + mm.Prefix + ":x"},
					PathQ{From: from, Start: st, Path: "/" + mm.Prefix + ":older-only/" + mm.Prefix + ":from-oldsub"})
			}
		}
	}
	return set, paths
}

func gen(t *rapid.T) Case {
	c := Case{Goroutines: rapid.SampledFrom([]int{8, 12, 16}).Draw(t, "goroutines"), Seed: rapid.Uint32().Draw(t, "seed")}
	if rapid.IntRange(0, 2).Draw(t, "mode") == 0 {
		c.Mode = "pipelines"
		c.Rounds = 3
		c.FromDisk = rapid.SampledFrom([]int{0, 0, 1, 2}).Draw(t, "imports-fetched-from-disk")
		n := rapid.IntRange(1, 3).Draw(t, "distinct-sets")
		lexical := rapid.IntRange(0, 2).Draw(t, "lexical-errors") == 0
		for i := 0; i < n; i++ {
			set, _ := genSet(t)
			texts := set.Texts()
			if lexical {
				// a text with lexical errors comes first in every set (its own name and wording per set), so
				// that the pipelines build their error reports at the same time
				bad := rapid.SampledFrom([]string{"description \"bad \\q escape %d\"; leaf x { description \"second \\z %d\"; }", "leaf a { description \"never closed %d; }", "container c { /* comment %d without end", "leaf b { description 'open %d; }"}).Draw(t, "lexical-fault")
				texts = append([]ymodel.Source{{Name: fmt.Sprintf("lex%d.yang", i), Text: fmt.Sprintf("module lex%d { namespace \"urn:lex%d\"; prefix l; "+bad+" }", i, i, i, i)}}, texts...)
			}
			c.Sets = append(c.Sets, texts)
		}
		return c
	}
	c.Mode = "readers"
	c.Rounds = 4
	set, paths := genSet(t)
	c.Sets = [][]ymodel.Source{set.Texts()}
	c.Paths = paths
	if rapid.IntRange(0, 2).Draw(t, "erroneous-set") == 0 {
		// every module gets three unknown groupings at its top (errors of its own) and a container holding an
		// unknown type and another unknown grouping (errors of descendants)
		c.Erroneous = true
		// Process stops at the errors before any augment is applied: an input or output that only an augment
		// would have made does not exist then, and the step into it would create it (a write). No lookup of
		// such a set leads through an input or output.
		c.Paths = withoutIO(c.Paths)
		for i := range c.Sets[0] {
			txt := c.Sets[0][i].Text
			if k := strings.LastIndex(txt, "}"); k > 0 && strings.HasPrefix(strings.TrimSpace(txt), "module") {
				c.Sets[0][i].Text = txt[:k] + fmt.Sprintf("  uses nosuch-a%d;\n  uses nosuch-b%d;\n  uses nosuch-c%d;\n  container cerr%d { leaf lerr { type nosuchtype; } uses nosuch-d; container deeper { uses nosuch-e; } }\n", i, i, i, i) + txt[k:]
			}
		}
	}
	return c
}

func TestCheck(t *testing.T) {
	if os.Getenv("VERIF_CHILD") == "1" {
		child()
		return
	}
	ev.Run(t, ev.Spec[Case]{
		ID:    "C19",
		Level: "exploration",
		Rule: "cases run in a child process built with the race detector (GOMAXPROCS=8). Mode 'pipelines': 8-16 goroutines released by a barrier, each loading, processing and dumping its own module set (1-3 distinct generated sets with typedefs, identities, submodules, augments), 3 rounds. A third of the pipeline cases put a text with lexical errors (undefined escapes, unclosed quotes and comments; own name and wording per set) first in every set. Mode 'readers': one processed set (in a third of the cases one whose modules hold unknown groupings and types, so that entries carry errors of their own and of descendants), 8-16 goroutines each issuing the same 60 generated queries in its own shuffled order (cached entry lookup, path lookup of existing nodes with resolvable prefixes - from module roots and from top-level nodes written in a module or one of its submodules, absolute with the prefixes of the text holding the start node and relative to a sibling -, Namespace, InstantiatingModule, FindModuleByNamespace, ReadOnly, DefaultValues, GetErrors, Path, Print), the first query of every reader being a first-time instantiating-module lookup and the second, where the set has one, a lookup of a node below the input or output of an rpc or action (the other half of the operation may be unwritten and must stay so), 4 rounds on freshly processed sets. " +
			"Oracle: no report from the race detector on the child's output, no panic, and every goroutine's results equal those of a sequential run on a fresh set. " +
			"Non-trivial = at least 2 goroutines actually ran; distinct by case",
		Assumptions: []string{
			"the harness does not own the scheduler: the race detector flags unsynchronised conflicting accesses that occur, atomicity violations between correctly locked sections are only seen if they change a result",
			"queries never name unwritten rpc input/output and never use unresolvable prefixes (those lookups write by design)",
		},
		Check: check,
		Gen:   gen,
	})
}
