// C15 — numbers print, parse, convert and compare as exact decimal arithmetic.
package c15

import (
	"fmt"
	"math/big"
	"strings"
	"testing"

	"github.com/openconfig/goyang/pkg/yang"
	"pgregory.net/rapid"

	"verif/lib/ev"
	"verif/lib/numref"
)

type Num struct {
	Value uint64 `json:"value"`
	FD    uint8  `json:"fd"`
	Neg   bool   `json:"neg"`
}

func (n Num) Y() yang.Number {
	return yang.Number{Value: n.Value, FractionDigits: n.FD, Negative: n.Neg}
}
func (n Num) String() string {
	s := ""
	if n.Neg {
		s = "-"
	}
	return fmt.Sprintf("%s%d/10^%d", s, n.Value, n.FD)
}

// Case: Op selects the clause.
//
//	num:     round-trip, Int, FromInt/FromUint of A
//	pair:    Less/Equal of A and B (same kind)
//	literal: parse Lit as integer (FD == 0) or as decimal at precision FD
//	modfd:   module text `fraction-digits Lit`
type Case struct {
	Op  string `json:"op"`
	A   Num    `json:"a"`
	B   Num    `json:"b"`
	Lit string `json:"lit,omitempty"`
	FD  uint8  `json:"fd,omitempty"`
}

var (
	maxU64  = new(big.Int).SetUint64(^uint64(0))
	maxI64  = big.NewInt(1<<63 - 1)
	minI64  = new(big.Int).Neg(new(big.Int).Lsh(big.NewInt(1), 63))
	negMaxU = new(big.Int).Neg(maxU64)
)

// inDomain: integers of 64-bit magnitude with sign; decimals with a signed
// 64-bit mantissa and 1..18 fraction digits.
func inDomain(n Num) bool {
	if n.FD == 0 {
		return true
	}
	if n.FD > 18 {
		return false
	}
	if n.Neg {
		return n.Value <= 1<<63
	}
	return n.Value <= 1<<63-1
}

func numClass(n Num) string {
	switch {
	case n.Value == 0 && n.Neg:
		return "negative-zero"
	case n.Value == 0:
		return "zero"
	case n.Value >= 1<<63:
		return "magnitude>=2^63"
	}
	return "ordinary"
}

func checkNum(c Case, o *ev.Outcome) {
	n := c.A
	if !inDomain(n) {
		o.OutOfClaim = "number outside the stated domain"
		return
	}
	y := n.Y()
	exact := numref.Mantissa(n.Value, n.Neg)
	kind := "int"
	if n.FD > 0 {
		kind = "decimal"
	}
	o.Class("num/" + kind)
	o.NonTrivial = n.Value > 9 || n.FD > 0
	ev.Guard(o, "Number.String/Parse", func() {
		s := y.String()
		var back yang.Number
		var err error
		if n.FD == 0 {
			back, err = yang.ParseInt(s)
		} else {
			back, err = yang.ParseDecimal(s, n.FD)
		}
		if err != nil {
			o.Violate("round-trip", "C15/round-trip/"+kind+"/parse-error/"+numClass(n), "%v prints as %q which does not parse back: %v", n, s, err)
		} else if back.FractionDigits != n.FD || numref.Mantissa(back.Value, back.Negative).Cmp(exact) != 0 {
			o.Violate("round-trip", "C15/round-trip/"+kind+"/different-number/"+numClass(n), "%v prints as %q which parses back as %+v", n, s, back)
		}
		// the printed form denotes the number
		if want := refString(n); s != want && !(n.Value == 0 && n.Neg) {
			o.Violate("print", "C15/print/"+kind, "%v prints as %q, exact decimal notation is %q", n, s, want)
		}
	})
	if n.FD == 0 {
		ev.Guard(o, "Number.Int", func() {
			i, err := y.Int()
			fits := exact.Cmp(minI64) >= 0 && exact.Cmp(maxI64) <= 0
			switch {
			case err == nil && !fits:
				side := "positive"
				if n.Neg {
					side = "negative"
				}
				o.Violate("int-conversion", "C15/int/wrapped/"+side, "Int() of %s returned %d without error", exact, i)
			case err == nil && big.NewInt(i).Cmp(exact) != 0:
				o.Violate("int-conversion", "C15/int/wrong-value", "Int() of %s returned %d", exact, i)
			case err != nil && fits:
				o.Violate("int-conversion", "C15/int/spurious-error/"+numClass(n), "Int() of %s failed: %v", exact, err)
			}
		})
		ev.Guard(o, "FromInt/FromUint", func() {
			if !n.Neg {
				f := yang.FromUint(n.Value)
				if f.FractionDigits != 0 || numref.Mantissa(f.Value, f.Negative).Cmp(exact) != 0 {
					o.Violate("from", "C15/from/uint", "FromUint(%d) = %+v", n.Value, f)
				}
			}
			if exact.IsInt64() {
				f := yang.FromInt(exact.Int64())
				if f.FractionDigits != 0 || numref.Mantissa(f.Value, f.Negative).Cmp(exact) != 0 {
					o.Violate("from", "C15/from/int", "FromInt(%s) = %+v", exact, f)
				}
			}
		})
	}
}

// refString is exact decimal notation: sign, integer part without superfluous
// zeros, '.', exactly fd fraction digits.
func refString(n Num) string {
	d := new(big.Int).SetUint64(n.Value).String()
	if n.FD > 0 {
		for len(d) <= int(n.FD) {
			d = "0" + d
		}
		d = d[:len(d)-int(n.FD)] + "." + d[len(d)-int(n.FD):]
	}
	if n.Neg {
		d = "-" + d
	}
	return d
}

func checkPair(c Case, o *ev.Outcome) {
	a, b := c.A, c.B
	if !inDomain(a) || !inDomain(b) {
		o.OutOfClaim = "number outside the stated domain"
		return
	}
	if (a.FD == 0) != (b.FD == 0) {
		o.OutOfClaim = "integer compared with decimal (documented as unsupported)"
		return
	}
	sa, sb := numref.Scaled18(a.Value, a.Neg, int(a.FD)), numref.Scaled18(b.Value, b.Neg, int(b.FD))
	cmp := sa.Cmp(sb)
	cls := "same-fd"
	if a.FD != b.FD {
		cls = "mixed-fd"
	}
	if numClass(a) == "negative-zero" || numClass(b) == "negative-zero" {
		cls = "negative-zero"
	} else if numClass(a) == "magnitude>=2^63" || numClass(b) == "magnitude>=2^63" {
		cls += "/extreme"
	}
	o.Class("pair/" + cls)
	o.NonTrivial = true
	ev.Guard(o, "Number.Less/Equal", func() {
		ya, yb := a.Y(), b.Y()
		if got := ya.Less(yb); got != (cmp < 0) {
			o.Violate("order", "C15/order/less/"+cls, "(%v).Less(%v) = %v, exact comparison %d", a, b, got, cmp)
		}
		if got := yb.Less(ya); got != (cmp > 0) {
			o.Violate("order", "C15/order/less/"+cls, "(%v).Less(%v) = %v, exact comparison %d", b, a, got, -cmp)
		}
		if got := ya.Equal(yb); got != (cmp == 0) {
			o.Violate("order", "C15/order/equal/"+cls, "(%v).Equal(%v) = %v, exact comparison %d", a, b, got, cmp)
		}
	})
}

// parseLiteral reads [sign] digits [. digits] exactly.
func parseLiteral(lit string) (mant *big.Int, fracDigits int, ok bool) {
	s := lit
	neg := false
	if strings.HasPrefix(s, "-") {
		neg, s = true, s[1:]
	} else if strings.HasPrefix(s, "+") {
		s = s[1:]
	}
	ip, fp := s, ""
	hasDot := false
	if i := strings.IndexByte(s, '.'); i >= 0 {
		ip, fp, hasDot = s[:i], s[i+1:], true
	}
	isD := func(x string) bool {
		if x == "" {
			return false
		}
		for _, ch := range x {
			if ch < '0' || ch > '9' {
				return false
			}
		}
		return true
	}
	if !isD(ip) || (hasDot && !isD(fp)) || (len(ip) > 1 && ip[0] == '0') {
		return nil, 0, false
	}
	m, _ := new(big.Int).SetString(ip+fp, 10)
	if neg {
		m.Neg(m)
	}
	return m, len(fp), true
}

func checkLiteral(c Case, o *ev.Outcome) {
	m, fd, ok := parseLiteral(c.Lit)
	if !ok {
		o.OutOfClaim = "not a literal of the form [sign] digits [. digits] without superfluous leading zeros"
		return
	}
	o.NonTrivial = true
	if c.FD == 0 {
		if fd > 0 || strings.Contains(c.Lit, ".") {
			o.OutOfClaim = "decimal literal offered to the integer parser"
			return
		}
		o.Class("literal/int")
		fits := m.Cmp(negMaxU) >= 0 && m.Cmp(maxU64) <= 0
		ev.Guard(o, "ParseInt", func() {
			n, err := yang.ParseInt(c.Lit)
			switch {
			case err != nil && fits:
				o.Violate("literal", "C15/literal/int/spurious-error", "ParseInt(%q) failed: %v", c.Lit, err)
			case err == nil && !fits:
				o.Violate("literal", "C15/literal/int/accepted-beyond-64-bit", "ParseInt(%q) = %+v", c.Lit, n)
			case err == nil && (n.FractionDigits != 0 || numref.Mantissa(n.Value, n.Negative).Cmp(m) != 0):
				o.Violate("literal", "C15/literal/int/wrong-value", "ParseInt(%q) = %+v", c.Lit, n)
			}
		})
		return
	}
	if c.FD > 18 {
		o.OutOfClaim = "precision outside 1..18"
		return
	}
	o.Class("literal/decimal")
	// value at precision c.FD
	var want *big.Int
	excess := fd > int(c.FD)
	excessNonZero := false
	if excess {
		// digits beyond the precision
		q, r := new(big.Int).QuoRem(m, numref.Pow10(fd-int(c.FD)), new(big.Int))
		excessNonZero = r.Sign() != 0
		want = q
		o.Class("literal/decimal/more-digits-than-precision")
	} else {
		want = new(big.Int).Mul(m, numref.Pow10(int(c.FD)-fd))
	}
	fits := want.Cmp(minI64) >= 0 && want.Cmp(maxI64) <= 0
	lenClass := "lt256-digits"
	if fd >= 256 {
		lenClass = "ge256-digits"
	}
	ev.Guard(o, "ParseDecimal", func() {
		n, err := yang.ParseDecimal(c.Lit, c.FD)
		switch {
		case err == nil && excessNonZero:
			o.Violate("literal", "C15/literal/decimal/accepted-too-precise/"+lenClass, "ParseDecimal(%q, %d) = %+v although the literal has %d fraction digits", short(c.Lit), c.FD, n, fd)
		case err == nil && !fits:
			o.Violate("literal", "C15/literal/decimal/accepted-beyond-64-bit", "ParseDecimal(%q, %d) = %+v", short(c.Lit), c.FD, n)
		case err == nil && (n.FractionDigits != c.FD || numref.Mantissa(n.Value, n.Negative).Cmp(want) != 0):
			o.Violate("literal", "C15/literal/decimal/wrong-value/"+lenClass, "ParseDecimal(%q, %d) = %+v, exact mantissa %s", short(c.Lit), c.FD, n, want)
		case err != nil && fits && !excess:
			o.Violate("literal", "C15/literal/decimal/spurious-error", "ParseDecimal(%q, %d) failed: %v", short(c.Lit), c.FD, err)
		}
	})
}

func short(s string) string {
	if len(s) > 60 {
		return s[:28] + "…" + s[len(s)-28:] + fmt.Sprintf(" (%d chars)", len(s))
	}
	return s
}

// checkModFD: the integer argument of fraction-digits through module text.
func checkModFD(c Case, o *ev.Outcome) {
	m, fd, ok := parseLiteral(c.Lit)
	if !ok || fd > 0 || strings.Contains(c.Lit, ".") || strings.HasPrefix(c.Lit, "+") {
		o.OutOfClaim = "not a canonical integer literal"
		return
	}
	o.Class("module/fraction-digits")
	o.NonTrivial = true
	valid := m.Cmp(big.NewInt(1)) >= 0 && m.Cmp(big.NewInt(18)) <= 0
	text := "module m { namespace \"urn:m\"; prefix m; leaf l { type decimal64 { fraction-digits " + c.Lit + "; } } }"
	ev.Guard(o, "load module with fraction-digits", func() {
		ms := yang.NewModules()
		err := ms.Parse(text, "m.yang")
		var errs []error
		if err == nil {
			errs = ms.Process()
		}
		failed := err != nil || len(errs) > 0
		switch {
		case failed && valid:
			o.Violate("integer-argument", "C15/module/fraction-digits/spurious-error", "fraction-digits %s rejected: %v %v", c.Lit, err, errs)
		case !failed && !valid:
			side := "positive"
			if m.Sign() < 0 {
				side = "negative"
			}
			o.Violate("integer-argument", "C15/module/fraction-digits/accepted-out-of-range/"+side, "fraction-digits %s accepted", c.Lit)
		case !failed:
			e := yang.ToEntry(ms.Modules["m"])
			l := e.Dir["l"]
			if l == nil || l.Type == nil || int64(l.Type.FractionDigits) != m.Int64() {
				o.Violate("integer-argument", "C15/module/fraction-digits/wrong-value", "fraction-digits %s read as %v", c.Lit, l.Type.FractionDigits)
			}
		}
	})
}

func check(c Case) (o ev.Outcome) {
	switch c.Op {
	case "num":
		checkNum(c, &o)
		o.Key = fmt.Sprintf("n|%v", c.A)
		o.Sample = map[string]any{"op": "round-trip/Int/From", "number": c.A.String()}
	case "pair":
		checkPair(c, &o)
		o.Key = fmt.Sprintf("p|%v|%v", c.A, c.B)
		o.Sample = map[string]any{"op": "Less/Equal", "a": c.A.String(), "b": c.B.String()}
	case "literal":
		checkLiteral(c, &o)
		o.Key = fmt.Sprintf("l|%s|%d", c.Lit, c.FD)
		o.Sample = map[string]any{"op": "parse literal", "literal": short(c.Lit), "precision": c.FD}
	case "modfd":
		checkModFD(c, &o)
		o.Key = "m|" + c.Lit
		o.Sample = map[string]any{"op": "fraction-digits through module text", "literal": c.Lit}
	default:
		o.OutOfClaim = "unknown op"
	}
	return o
}

// grid of magnitudes
func magnitudes() []uint64 {
	set := map[uint64]bool{}
	add := func(v uint64) { set[v] = true }
	for _, v := range []uint64{0, 1, 2, 9, 10, 11} {
		add(v)
	}
	p := uint64(1)
	for k := 1; k <= 19; k++ {
		p *= 10
		add(p - 1)
		add(p)
		add(p + 1)
	}
	for _, v := range []uint64{1<<31 - 1, 1 << 31, 1<<31 + 1, 1<<32 - 1, 1 << 32, 1<<32 + 1, 1<<63 - 2, 1<<63 - 1, 1 << 63, 1<<63 + 1, ^uint64(0) - 1, ^uint64(0),
		123456789, 922337203685477580, 9223372036854775, 5000000000000000000, 4999999999999999999} {
		add(v)
	}
	var out []uint64
	for v := range set {
		out = append(out, v)
	}
	// deterministic order
	for i := range out {
		for j := i + 1; j < len(out); j++ {
			if out[j] < out[i] {
				out[i], out[j] = out[j], out[i]
			}
		}
	}
	return out
}

func grid() (ints, decs []Num) {
	for _, m := range magnitudes() {
		for _, neg := range []bool{false, true} {
			ints = append(ints, Num{Value: m, Neg: neg})
			for fd := uint8(1); fd <= 18; fd++ {
				n := Num{Value: m, FD: fd, Neg: neg}
				if inDomain(n) {
					decs = append(decs, n)
				}
			}
		}
	}
	return
}

func gridLiterals() []Case {
	var out []Case
	ints := []string{"0", "1", "9", "10", "2147483648", "9223372036854775807", "9223372036854775808", "18446744073709551615", "18446744073709551616", "99999999999999999999", "100000000000000000000000"}
	for _, s := range ints {
		for _, sign := range []string{"", "-", "+"} {
			out = append(out, Case{Op: "literal", Lit: sign + s, FD: 0})
			if sign != "+" {
				out = append(out, Case{Op: "modfd", Lit: sign + s})
			}
		}
	}
	for _, s := range []string{"2", "17", "18", "19", "255", "256", "257", "274", "4294967297", "18446744073709551617", "18446744073709551598"} {
		out = append(out, Case{Op: "modfd", Lit: s}, Case{Op: "modfd", Lit: "-" + s})
	}
	ips := []string{"0", "1", "9", "92233720368547758", "922337203685477580", "9223372036854775807", "9223372036854775808", "9223372036854775809", "18446744073709551616"}
	var fps []string
	for _, n := range []int{0, 1, 2, 17, 18, 19, 20, 254, 255, 256, 257, 258, 511, 512, 513} {
		if n == 0 {
			fps = append(fps, "")
			continue
		}
		fps = append(fps, strings.Repeat("0", n-1)+"1", strings.Repeat("0", n), strings.Repeat("9", n), "7"+strings.Repeat("0", n-1))
	}
	for _, ip := range ips {
		for _, fp := range fps {
			for _, sign := range []string{"", "-"} {
				lit := sign + ip
				if fp != "" {
					lit += "." + fp
				}
				for _, fd := range []uint8{1, 2, 9, 17, 18} {
					out = append(out, Case{Op: "literal", Lit: lit, FD: fd})
				}
			}
		}
	}
	// the 64-bit limits as mantissa at every precision: the digits of 2^63-2 ... 2^63+1, 2^64-1 ... 2^64+1 and
	// 10^19-1, 10^19 with the point placed f digits from the right, read at precision f, and at f+1 (one more
	// digit to make up) and f-1 (one digit too many) where those exist
	for _, digits := range []string{"9223372036854775806", "9223372036854775807", "9223372036854775808", "9223372036854775809", "9223372036854775810",
		"18446744073709551615", "18446744073709551616", "18446744073709551617", "9999999999999999999", "10000000000000000000", "922337203685477580", "922337203685477581", "1844674407370955161", "1844674407370955162"} {
		for f := 1; f <= 18 && f < len(digits); f++ {
			ip, fp := digits[:len(digits)-f], digits[len(digits)-f:]
			for _, sign := range []string{"", "-", "+"} {
				lit := sign + ip + "." + fp
				for _, fd := range []int{f - 1, f, f + 1} {
					if fd >= 1 && fd <= 18 {
						out = append(out, Case{Op: "literal", Lit: lit, FD: uint8(fd)})
					}
				}
			}
		}
	}
	return out
}

func enumerate(tier string, shard, shards int, emit func(Case) bool) bool {
	ints, decs := grid()
	idx := 0
	mine := func() bool { idx++; return idx%shards == shard }
	for _, n := range append(append([]Num{}, ints...), decs...) {
		if mine() && !emit(Case{Op: "num", A: n}) {
			return false
		}
	}
	for _, c := range gridLiterals() {
		if mine() && !emit(c) {
			return false
		}
	}
	for _, a := range ints {
		if !mine() {
			continue
		}
		for _, b := range ints {
			if !emit(Case{Op: "pair", A: a, B: b}) {
				return false
			}
		}
	}
	// decimal pairs: all rows in the thorough tier, every 8th row (rotated by
	// the seed) in the quick tier
	env := ev.ReadEnv("C15")
	step := 8
	if tier == "thorough" {
		step = 1
	}
	for i, a := range decs {
		if !mine() {
			continue
		}
		if (i+int(env.Seed&0xffff))%step != 0 {
			continue
		}
		for _, b := range decs {
			if !emit(Case{Op: "pair", A: a, B: b}) {
				return false
			}
		}
	}
	return true
}

func genNum(t *rapid.T, label string, decimal bool) Num {
	var v uint64
	switch rapid.IntRange(0, 3).Draw(t, label+"-shape") {
	case 0:
		v = rapid.Uint64().Draw(t, label+"-v")
	case 1:
		v = rapid.Uint64Range(0, 1000).Draw(t, label+"-v")
	case 2:
		v = rapid.SampledFrom(magnitudes()).Draw(t, label+"-v")
	default:
		// digits-shaped
		nd := rapid.IntRange(1, 19).Draw(t, label+"-nd")
		p := uint64(1)
		for i := 1; i < nd; i++ {
			p *= 10
		}
		v = p*uint64(rapid.IntRange(1, 9).Draw(t, label+"-lead")) + rapid.Uint64Range(0, p-1).Draw(t, label+"-rest")
	}
	n := Num{Value: v, Neg: rapid.Bool().Draw(t, label+"-neg")}
	if decimal {
		n.FD = uint8(rapid.IntRange(1, 18).Draw(t, label+"-fd"))
		if n.Neg && n.Value > 1<<63 {
			n.Value >>= 1
		}
		if !n.Neg && n.Value > 1<<63-1 {
			n.Value >>= 1
		}
	}
	return n
}

func gen(t *rapid.T) Case {
	switch rapid.IntRange(0, 9).Draw(t, "op") {
	case 0, 1:
		return Case{Op: "num", A: genNum(t, "a", rapid.Bool().Draw(t, "dec"))}
	case 2, 3, 4, 5:
		dec := rapid.IntRange(0, 3).Draw(t, "dec") > 0
		a := genNum(t, "a", dec)
		b := genNum(t, "b", dec)
		if dec && rapid.IntRange(0, 2).Draw(t, "near") == 0 {
			// b close to a in value but with other fraction digits
			b = a
			b.FD = uint8(rapid.IntRange(1, 18).Draw(t, "b-fd2"))
			for b.FD > a.FD && b.Value <= (1<<63-1)/10 && b.FD-a.FD > 0 {
				b.Value *= 10
				a.FD++ // keep value equal: a*10^(d) / 10^(fd+d)
				if a.FD == b.FD {
					break
				}
			}
			b.FD = a.FD
			a = genTweak(t, a)
		}
		return Case{Op: "pair", A: a, B: b}
	case 6:
		lit := rapid.StringMatching(`-?(0|[1-9][0-9]{0,20})`).Draw(t, "lit")
		if rapid.Bool().Draw(t, "modfd") {
			return Case{Op: "modfd", Lit: lit}
		}
		return Case{Op: "literal", Lit: lit, FD: 0}
	default:
		lit := rapid.StringMatching(`[-+]?(0|[1-9][0-9]{0,19})(\.[0-9]{1,22})?`).Draw(t, "lit")
		return Case{Op: "literal", Lit: lit, FD: uint8(rapid.IntRange(1, 18).Draw(t, "fd"))}
	}
}

// genTweak changes the fraction digits of a while keeping or nearly keeping its value.
func genTweak(t *rapid.T, a Num) Num {
	d := rapid.IntRange(-1, 1).Draw(t, "delta")
	switch {
	case d < 0 && a.Value > 0:
		a.Value--
	case d > 0 && a.Value < 1<<63-1:
		a.Value++
	}
	return a
}

func TestCheck(t *testing.T) {
	ints, decs := grid()
	ev.Run(t, ev.Spec[Case]{
		ID:    "C15",
		Level: "exploration",
		Rule: fmt.Sprintf("boundary grid of %d integers and %d decimal64 numbers (magnitudes around 10^k, 2^31, 2^32, 2^63, 2^64 x sign x fraction-digits 0..18): every number for print/parse round-trip, Int, FromInt/FromUint; "+
			"every ordered integer pair and (thorough: every, quick: a seed-rotated eighth of the rows of) ordered decimal pairs incl. mixed fraction digits for Less/Equal against big-integer arithmetic at scale 10^18; "+
			"a grid of literals [sign] digits [. digits] with 0..20 and 254..513 fraction digits around the 64-bit limits for ParseInt/ParseDecimal; integer arguments of fraction-digits through module text; plus rapid-generated numbers, near-equal pairs and literals. "+
			"Non-trivial = every judged case except single-digit integers in the round-trip clause; distinct by (op, operands)", len(ints), len(decs)),
		Assumptions: []string{
			"integer/decimal mixed comparisons are not judged (documented as unsupported by Less)",
			"a literal with more fraction digits than requested whose excess digits are all zero may be accepted (exactly) or rejected",
			"FromFloat and non-decimal literals (0x.., leading zeros) are outside the claim",
			"oracle: math/big integer arithmetic",
		},
		Check:     check,
		Gen:       gen,
		Enumerate: enumerate,
		EnumNote: func(tier string) string {
			if tier == "thorough" {
				return "all grid numbers, all grid literals, all ordered same-kind pairs of grid numbers"
			}
			return "all grid numbers, all grid literals, all ordered integer pairs, one eighth of the decimal pair rows"
		},
	})
}
