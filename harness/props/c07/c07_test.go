// C07 — augments are applied exactly once, order-independently, or reported.
package c07

import (
	"fmt"
	"strings"
	"testing"

	"pgregory.net/rapid"

	"verif/lib/canon"
	"verif/lib/ev"
	"verif/lib/schema"
	"verif/lib/ymodel"
	"verif/lib/yref"
)

type Case struct {
	Set    *ymodel.Set `json:"set"`
	Orders [][]int     `json:"orders,omitempty"`
	Fault  string      `json:"fault,omitempty"`
	// Fetch: these sources are not handed over; they wait in a search-path directory and are fetched by Process
	Fetch []string `json:"fetch,omitempty"`
}

func check(c Case) (o ev.Outcome) {
	if c.Set == nil {
		o.OutOfClaim = "empty case"
		return
	}
	orders := c.Orders
	if len(orders) == 0 {
		orders = [][]int{nil}
	}
	r := yref.New(c.Set)
	trees := r.Expand()
	naug := 0
	chained := false
	for _, m := range c.Set.Modules {
		naug += len(m.Augments)
		for _, a := range m.Augments {
			if strings.Contains(a.Path, ":a") {
				chained = true
			}
		}
	}
	o.Class(fmt.Sprintf("augments-%d", minInt(naug, 6)))
	if len(c.Fetch) > 0 {
		o.Class("one-module-fetched-from-search-path")
	}
	if chained {
		o.Class("augment-of-augment")
	}
	for _, m := range c.Set.Modules {
		if len(m.Augments) > 0 && strings.HasPrefix(m.Augments[0].Nodes[0].Name, "link") {
			o.Class("chain-of-augments-across-modules-named-in-another-order")
			break
		}
	}
	o.Sample = map[string]any{"fault": c.Fault, "orders": orders, "sources": schema.Sources(c.Set, nil)}
	if c.Fault != "" {
		o.Class("fault/" + c.Fault)
		if len(r.Problems) == 0 {
			o.OutOfClaim = "planted fault not seen by the reference (harness)"
			return
		}
		o.NonTrivial = true
	} else {
		if len(r.Problems) > 0 {
			o.OutOfClaim = "generated set has problems by the reference (harness)"
			return
		}
		o.NonTrivial = naug >= 1
	}
	for oi, ord := range orders {
		srcs := schema.Sources(c.Set, ord)
		var obs *schema.Observed
		if !ev.Guard(&o, "load+process", func() { obs = schema.LoadFetched(srcs, c.Fetch, nil) }) {
			for i := range o.Violations {
				if c.Fault != "" {
					o.Violations[i].Sig = "C07/" + o.Violations[i].Sig + "/with-" + c.Fault
				} else {
					o.Violations[i].Sig = "C07/" + o.Violations[i].Sig
				}
			}
			return
		}
		if c.Fault != "" {
			if obs.Clean() {
				o.Violate("bad-augment-reported", "C07/fault-unreported/"+c.Fault, "planted: %s (%v); load order %v: processing reported no error", c.Fault, r.Problems, ord)
				return
			}
			continue
		}
		if !obs.Clean() {
			cls := schema.ErrClass(obs.ErrText())
			o.Violate("valid-augments-apply", "C07/valid-rejected/"+cls, "load order %v: every augment of the set has an existing target that can have children and adds fresh names, yet: %s", ord, obs.ErrText())
			return
		}
		before := len(o.Violations)
		ev.Guard(&o, "compare", func() {
			schema.CompareModules(&o, c.Set, obs, trees, canon.DiffOpts{NS: true, Stmts: true}, "C07", "augmented-tree")
		})
		if len(o.Violations) > before {
			o.Violations[len(o.Violations)-1].Detail = fmt.Sprintf("load order #%d %v: %s", oi, ord, o.Violations[len(o.Violations)-1].Detail)
			return
		}
	}
	return o
}

func minInt(a, b int) int {
	if a < b {
		return a
	}
	return b
}

// plant adds one augment that cannot be applied.
func plant(t *rapid.T, set *ymodel.Set) string {
	r := yref.New(set)
	trees := r.Expand()
	if len(r.Problems) > 0 {
		return ""
	}
	from := set.Modules[rapid.IntRange(0, len(set.Modules)-1).Draw(t, "augmenting-module")]
	all := schema.Targets(set, trees, from)
	if len(all) == 0 {
		return ""
	}
	leaf := func(n string) *ymodel.Node {
		return &ymodel.Node{Kind: ymodel.KLeaf, Name: n, Type: &ymodel.TypeRef{Name: "string"}}
	}
	pick := func(pred func(schema.Target) bool, label string) *schema.Target {
		var c []schema.Target
		for _, tg := range all {
			if pred(tg) {
				c = append(c, tg)
			}
		}
		if len(c) == 0 {
			return nil
		}
		return &c[rapid.IntRange(0, len(c)-1).Draw(t, label)]
	}
	can := func(k string) bool {
		switch k {
		case ymodel.KContainer, ymodel.KList, ymodel.KChoice, ymodel.KCase, ymodel.KInput, ymodel.KOutput, ymodel.KNotification:
			return true
		}
		return false
	}
	switch rapid.SampledFrom([]string{"missing-target", "leaf-target", "collides-with-own-child", "two-augments-collide", "two-augments-use-one-grouping"}).Draw(t, "fault") {
	case "two-augments-use-one-grouping":
		// both augments bring the colliding nodes through uses of the same grouping
		tg := pick(func(x schema.Target) bool { return can(x.Node.Kind) && x.Node.Kind != ymodel.KChoice }, "parent")
		if tg == nil {
			return ""
		}
		owner := set.Owner(from)
		owner.Groupings = append(owner.Groupings, &ymodel.Grouping{Name: "gclash", Body: ymodel.Body{Nodes: []*ymodel.Node{leaf("zz4"), {Kind: ymodel.KContainer, Name: "zz5", Body: ymodel.Body{Nodes: []*ymodel.Node{leaf("zz6")}}}}}})
		usesIn := func(m *ymodel.Module) *ymodel.Node {
			if set.Owner(m) == owner {
				return &ymodel.Node{Kind: ymodel.KUses, Name: "gclash"}
			}
			for _, im := range m.Imports {
				if im.Module == owner.Name {
					return &ymodel.Node{Kind: ymodel.KUses, Name: im.Prefix + ":gclash"}
				}
			}
			return nil
		}
		from.Augments = append(from.Augments, &ymodel.Augment{Path: tg.Path, Body: ymodel.Body{Nodes: []*ymodel.Node{usesIn(from), leaf("zz7")}}})
		other, otherPath := from, tg.Path
		for _, m := range set.Modules {
			if m == from || usesIn(m) == nil {
				continue
			}
			for _, x := range schema.Targets(set, trees, m) {
				if x.Node == tg.Node {
					other, otherPath = m, x.Path
				}
			}
		}
		other.Augments = append(other.Augments, &ymodel.Augment{Path: otherPath, Body: ymodel.Body{Nodes: []*ymodel.Node{usesIn(other), leaf("zz8")}}})
		if other != from {
			return "two-modules-augment-through-one-grouping"
		}
		return "two-augments-through-one-grouping"
	case "missing-target":
		tg := pick(func(schema.Target) bool { return true }, "near")
		path := tg.Path
		switch rapid.IntRange(0, 3).Draw(t, "where") {
		case 3:
			// the path of a node below a choice, spelled without the choice and case steps
			tc := pick(func(x schema.Target) bool {
				_, ok := schema.WithoutChoiceSteps(trees, x)
				return ok && can(x.Node.Kind) && x.Node.Kind != ymodel.KChoice && x.Node.Kind != ymodel.KCase
			}, "below-a-choice")
			if tc == nil {
				path += "/" + from.Prefix + ":nosuch"
				break
			}
			path, _ = schema.WithoutChoiceSteps(trees, *tc)
			from.Augments = append(from.Augments, &ymodel.Augment{Path: path, Body: ymodel.Body{Nodes: []*ymodel.Node{leaf("zz1")}}})
			return "target-path-skips-choice-and-case"
		case 0:
			path += "/" + from.Prefix + ":nosuch"
		case 1:
			path = "/" + from.Prefix + ":nosuch"
		default:
			i := strings.LastIndex(path, "/")
			path = path[:i] + "/" + from.Prefix + ":nosuch"
		}
		from.Augments = append(from.Augments, &ymodel.Augment{Path: path, Body: ymodel.Body{Nodes: []*ymodel.Node{leaf("zz1")}}})
		return "missing-target"
	case "leaf-target":
		tg := pick(func(x schema.Target) bool { return x.Node.Kind == ymodel.KLeaf || x.Node.Kind == ymodel.KLeafList }, "leaf")
		if tg == nil {
			return ""
		}
		from.Augments = append(from.Augments, &ymodel.Augment{Path: tg.Path, Body: ymodel.Body{Nodes: []*ymodel.Node{leaf("zz1")}}})
		return "target-is-" + tg.Node.Kind
	case "collides-with-own-child":
		tg := pick(func(x schema.Target) bool {
			if !can(x.Node.Kind) || x.Node.Kind == ymodel.KChoice {
				return false
			}
			return len(x.Node.Children) > 0
		}, "parent")
		if tg == nil {
			return ""
		}
		var names []string
		for k := range tg.Node.Children {
			names = append(names, k)
		}
		name := names[0]
		for _, n := range names {
			if n < name {
				name = n
			}
		}
		from.Augments = append(from.Augments, &ymodel.Augment{Path: tg.Path, Body: ymodel.Body{Nodes: []*ymodel.Node{leaf(name), leaf("zz2")}}})
		return "collides-with-own-child"
	default:
		tg := pick(func(x schema.Target) bool { return can(x.Node.Kind) && x.Node.Kind != ymodel.KChoice }, "parent")
		if tg == nil {
			return ""
		}
		from.Augments = append(from.Augments, &ymodel.Augment{Path: tg.Path, Body: ymodel.Body{Nodes: []*ymodel.Node{leaf("zz3")}}})
		// the second augment comes from another module when one can address the node
		other := from
		otherPath := tg.Path
		for _, m := range set.Modules {
			if m == from {
				continue
			}
			for _, x := range schema.Targets(set, trees, m) {
				if x.Node == tg.Node {
					other, otherPath = m, x.Path
				}
			}
		}
		other.Augments = append(other.Augments, &ymodel.Augment{Path: otherPath, Body: ymodel.Body{Nodes: []*ymodel.Node{leaf("zz3")}}})
		if other != from {
			return "two-modules-augment-same-name"
		}
		return "two-augments-same-name"
	}
}

func gen(t *rapid.T) Case {
	o := ymodel.DefaultOpts()
	o.Typedefs = rapid.IntRange(0, 3).Draw(t, "typedefs") == 0
	o.Budget = 24
	o.Extras = true // must, when, status, reference, presence and extension statements on nodes, uses and augments
	schema.AugmentExtras = true
	set, _ := schema.Generate(t, o)
	schema.AddAugments(t, set, 1, 6)
	chain := rapid.IntRange(0, 3).Draw(t, "augment-chain") == 0
	if chain {
		// a chain of augments across new modules whose names are in no relation to the order of the chain
		schema.AddAugmentChain(t, set)
	}
	c := Case{Set: set}
	if rapid.IntRange(0, 3).Draw(t, "plant") == 0 {
		c.Fault = plant(t, set)
	}
	n := len(set.Modules)
	c.Orders = append(c.Orders, nil)
	if n > 1 {
		c.Orders = append(c.Orders, schema.Order(t, n), schema.Order(t, n))
	}
	c.Fetch = schema.PlanFetch(t, set)
	return c
}

func TestCheck(t *testing.T) {
	ev.Run(t, ev.Spec[Case]{
		ID:    "C07",
		Level: "exploration",
		Rule: "module sets from the schema model with 1-6 augments over 1-3 modules and their submodules: targets in the same and in imported modules, created by uses, by submodule content, by other augments (chains; statement order inside each module shuffled, so also against dependency order), inside choice, explicit case, rpc input and output (written and unwritten), notification; uses inside the augment; each set loaded in model order and in two random load orders. One quarter of the cases plant an augment that cannot be applied: missing target (last, first or replaced step), leaf or leaf-list target, a child name the target already has, two augments (from two modules where possible) adding the same name, written out or brought by uses of one grouping. " +
			"Oracle: valid sets process without error and every module tree equals the reference graft (each grafted node once, with the augmenting module's namespace and instantiating module on the node and its descendants) in every load order; a planted fault yields at least one error and no panic. " +
			"Non-trivial = at least one augment; distinct by (set, orders)",
		Assumptions: []string{
			"not generated (outside the claim): the implicit case of a shorthand member, or anything below it, as a target; unwritten input/output of an action; anydata/anyxml/rpc nodes as targets; wrong prefixes on path steps; uses-augment",
			"the namespace of the implicit case node wrapped around an augmented shorthand member is not judged",
		},
		Check: check,
		Gen:   gen,
		Risky: true,
	})
}
