// C01 — no input can crash, overflow or hang the loader and resolver.
package c01

import (
	"fmt"
	"io"
	"os"
	"runtime"
	"sort"
	"strings"
	"testing"
	"time"

	"github.com/openconfig/goyang/pkg/yang"

	"verif/lib/ev"
	"verif/lib/hostile"
)

type File = hostile.File

type Case = hostile.Case

type stats struct {
	parsed, loaded, errors, entries int
}

// script is the fixed read script: load, process, read everything back, process again, read again.
func script(c Case, st *stats) {
	ms := yang.NewModules()
	ms.ParseOptions.IgnoreSubmoduleCircularDependencies = c.IgnoreCirc
	ms.ParseOptions.DeviateOptions.IgnoreDeviateNotSupported = c.IgnoreNotSupp
	ms.ParseOptions.StoreUses = c.StoreUses
	for _, f := range c.Files {
		if ss, err := yang.Parse(f.Text, f.Name); err == nil && len(ss) > 0 {
			st.parsed++
		}
		if err := ms.Parse(f.Text, f.Name); err == nil {
			st.loaded++
		} else {
			st.errors++
			_ = err.Error()
		}
	}
	for round := 0; round < 2; round++ {
		errs := ms.Process()
		st.errors += len(errs)
		for _, e := range errs {
			_ = e.Error()
		}
		readBack(ms, st)
	}
}

func readBack(ms *yang.Modules, st *stats) {
	for _, reg := range []map[string]*yang.Module{ms.Modules, ms.SubModules} {
		names := make([]string, 0, len(reg))
		for k := range reg {
			names = append(names, k)
		}
		sort.Strings(names)
		for _, k := range names {
			m := reg[k]
			root := yang.ToEntry(m)
			for _, e := range root.GetErrors() {
				_ = e.Error()
			}
			root.Print(io.Discard)
			ms.FindModuleByNamespace(root.Namespace().Name)
			var walk func(e *yang.Entry, depth int)
			walk = func(e *yang.Entry, depth int) {
				if e == nil || depth > 64 {
					return
				}
				st.entries++
				e.ReadOnly()
				e.Namespace()
				e.InstantiatingModule()
				e.DefaultValues()
				e.SingleDefaultValue()
				p := e.Path()
				e.IsLeaf()
				e.IsList()
				e.IsChoice()
				e.GetWhenXPath()
				// lookups: own path from the root (unprefixed), mangled paths, '..' chains
				root.Find(strings.TrimPrefix(p, "/"+root.Name+"/"))
				e.Find("..")
				e.Find("../..")
				e.Find("../../../../..")
				e.Find("nosuch")
				e.Find("/nosuch")
				e.Find("/" + m.GetPrefix() + ":" + e.Name)
				e.Find("/zz:" + e.Name)
				e.Find("./" + e.Name + "/..")
				e.Find("input")
				e.Find("//")
				keys := make([]string, 0, len(e.Dir))
				for k := range e.Dir {
					keys = append(keys, k)
				}
				sort.Strings(keys)
				for _, k := range keys {
					walk(e.Dir[k], depth+1)
				}
				if e.RPC != nil {
					walk(e.RPC.Input, depth+1)
					walk(e.RPC.Output, depth+1)
				}
			}
			walk(root, 0)
		}
	}
}

const caseBound = 60 * time.Second

// memBound: inputs are at most 64 KiB; a heap of this size means memory use is not bounded by the input.
const memBound = 1 << 30

func check(c Case) (o ev.Outcome) {
	total := 0
	for _, f := range c.Files {
		total += len(f.Text)
	}
	if total > 64<<10 {
		o.OutOfClaim = "input larger than the explored size bound (64 KiB)"
		return
	}
	o.Class("generator/" + c.Gen)
	o.Sample = c
	var st stats
	done := make(chan struct{})
	var inner ev.Outcome
	go func() {
		defer close(done)
		ev.Guard(&inner, "load/process/read", func() { script(c, &st) })
	}()
	deadline := time.After(caseBound)
	tick := time.NewTicker(50 * time.Millisecond)
	defer tick.Stop()
wait:
	for {
		select {
		case <-done:
			break wait
		case <-deadline:
			o.Violate("bounded-time", "C01/hang/"+c.Gen, "the case did not finish within %v (inputs of %d bytes normally take about a millisecond)", caseBound, total)
			o.NonTrivial = true
			return
		case <-tick.C:
			// a case that is still running after 50 ms is watched for runaway memory; the process cannot
			// take the memory back, so it reports like a fatal error of the runtime and ends (the driver
			// attributes the death to the case in flight)
			var m runtime.MemStats
			runtime.ReadMemStats(&m)
			if m.HeapAlloc > memBound {
				buf := make([]byte, 1<<18)
				buf = buf[:runtime.Stack(buf, true)]
				fmt.Fprintf(os.Stderr, "fatal error: memory watchdog: heap of %d MiB while handling %d bytes of input\n\n%s\n", m.HeapAlloc>>20, total, buf)
				os.Exit(2)
			}
		}
	}
	for _, v := range inner.Violations {
		v.Sig = "C01/" + v.Sig
		o.Violations = append(o.Violations, v)
	}
	if st.parsed > 0 {
		o.Class("reached-ast-construction")
	}
	if st.loaded > 0 {
		o.Class("reached-process-with-a-module")
	}
	if st.errors > 0 {
		o.Class("returned-errors")
	}
	if st.entries > 5 {
		o.Class("read-back-entries")
	}
	o.NonTrivial = st.parsed > 0
	return o
}

func TestCheck(t *testing.T) {
	ev.Run(t, ev.Spec[Case]{
		ID:    "C01",
		Level: "exploration",
		Rule: "a case is up to 4 (file name, text) pairs and an option triple; the fixed script parses each text generically, loads it into one module set, processes, reads everything back (for every module and submodule: entry tree, GetErrors, Print, namespace lookup, and on every node ReadOnly, Namespace, InstantiatingModule, DefaultValues, Path, kind predicates, lookups of its own path, of '..' chains, of non-existent, mangled and wrongly prefixed paths), processes again and reads back again. Generators: (G1) valid module sets from the schema model with 1-3 statement-level mutations (delete, duplicate or move a statement, replace a keyword by another YANG keyword, a meta-name or an identifier, make an argument refer to itself, a sibling or nothing, hostile numeric arguments, name collisions, dropped files, shuffled load order); (G2) keyword soup: random statement trees over the whole YANG vocabulary, any keyword under any keyword, also at top level; (G3) parametrised hostile templates: reference cycles of length 1-4 over typedefs, groupings/uses, identity bases, includes, imports, within and across modules and at every scope, absent modules (also under names that look like paths: /dev/zero, ../m, a/b, m.yang) and prefixes, submodules without their module, augments of leaf, leaf-list, rpc, choice members, missing and malformed paths, deviations of missing, removed and odd targets with malformed deviate statements, duplicate names and revisions, enormous, negative and empty numeric arguments, degenerate types, choice/case oddities, import cycles under ordinary, empty and own prefixes with dangling references, fan-in chains (8-48 definitions each referring 2-3 times to the one before: typedef unions, identity bases, nested unions in one leaf) over a sound, broken or cyclic first definition. " +
			"Oracle: the script returns (panics are caught and attributed; a fatal runtime error kills the worker and the driver re-runs the case in flight in a fresh process to confirm and attribute it; a case that does not finish within 60 s is a hang). " +
			"Non-trivial = at least one text of the case is accepted by the generic parser and reaches AST construction; distinct by case",
		Assumptions: []string{
			"inputs up to 64 KiB; recursion proportional to brace nesting depth is bounded by input size and not 'unbounded recursion'",
			"'bounded time' is decided as 'well under 60 s for <= 64 KiB'; super-linear but terminating behaviour on huge inputs is not explored",
		},
		Check: check,
		Gen:   hostile.Gen,
		Risky: true,
	})
}
