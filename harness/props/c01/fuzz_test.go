package c01

import (
	"bytes"
	"encoding/json"
	"fmt"
	"os"
	"path/filepath"
	"strconv"
	"strings"
	"testing"

	"verif/lib/ev"
)

// FuzzLoad: coverage-guided bytes, split into up to 3 files at the record
// separator 0x1e; the first byte selects the options.
func FuzzLoad(f *testing.F) {
	ev.Setup()
	repo := os.Getenv("VERIF_REPO")
	if repo == "" {
		repo = "/repo"
	}
	for _, g := range []string{"testdata/*.yang", "pkg/yang/testdata/*.yang"} {
		files, _ := filepath.Glob(filepath.Join(repo, g))
		for _, p := range files {
			if b, err := os.ReadFile(p); err == nil && len(b) < 12<<10 {
				f.Add(append([]byte{0}, b...))
			}
		}
	}
	root := os.Getenv("VERIF_ROOT")
	if root == "" {
		root = "/verif"
	}
	for _, s := range []string{
		"module m { namespace \"urn:m\"; prefix m; typedef a { type a; } }",
		"module m { namespace \"urn:m\"; prefix m; grouping g { uses g; } uses g; }",
		"module m { namespace \"urn:m\"; prefix m; identity a { base a; } }",
		"module m { namespace \"urn:m\"; prefix m; include s; }\x1esubmodule s { belongs-to m { prefix m; } include s; leaf l { type nosuch; } }",
		"module a { namespace \"urn:a\"; prefix a; import b { prefix b; } leaf l { type b:t; } }\x1emodule b { namespace \"urn:b\"; prefix b; import a { prefix a; } typedef t { type string; } augment \"/a:l\" { leaf x { type string; } } deviation \"/a:l\" { deviate not-supported; } }",
		"submodule s { belongs-to m { prefix m; } rpc r { input { choice c { leaf x { type string; } } } } }",
	} {
		f.Add(append([]byte{1}, s...))
	}
	f.Fuzz(func(t *testing.T, data []byte) {
		c, ok := decodeFuzz(data)
		if !ok {
			return
		}
		ev.FuzzJudge(t, "C01", c, check(c))
	})
}

// decodeFuzz turns fuzz bytes into a case (shared by the fuzz target and the converter).
func decodeFuzz(data []byte) (Case, bool) {
	if len(data) < 2 || len(data) > 24<<10 {
		return Case{}, false
	}
	opt := data[0]
	c := Case{Gen: "native-fuzz", IgnoreCirc: opt&1 != 0, IgnoreNotSupp: opt&2 != 0, StoreUses: opt&4 != 0}
	for i, part := range bytes.SplitN(data[1:], []byte{0x1e}, 3) {
		c.Files = append(c.Files, File{Name: fmt.Sprintf("f%d.yang", i), Text: string(part)})
	}
	return c, true
}

// TestFuzzConvert converts a crasher stored by the fuzzing engine
// (VERIF_FUZZ_INPUT, "go test fuzz v1" format) into a replay file
// (VERIF_FUZZ_REPLAY) without executing it.
func TestFuzzConvert(t *testing.T) {
	in, out := os.Getenv("VERIF_FUZZ_INPUT"), os.Getenv("VERIF_FUZZ_REPLAY")
	if in == "" || out == "" {
		t.Skip("not a conversion run")
	}
	b, err := os.ReadFile(in)
	if err != nil {
		t.Fatal(err)
	}
	lines := bytes.Split(b, []byte("\n"))
	if len(lines) < 2 {
		t.Fatal("not a fuzz corpus file")
	}
	s := string(lines[1])
	s = strings.TrimSuffix(strings.TrimPrefix(s, "[]byte("), ")")
	data, err := strconv.Unquote(s)
	if err != nil {
		t.Fatalf("cannot decode %q: %v", s, err)
	}
	c, ok := decodeFuzz([]byte(data))
	if !ok {
		t.Fatal("input outside the decoded domain")
	}
	cj, _ := json.Marshal(c)
	rf, _ := json.MarshalIndent(ev.ReplayFile{Property: "C01", Case: cj, Tier: "thorough", Note: "crasher stored by the native fuzzing engine"}, "", " ")
	if err := os.WriteFile(out, rf, 0o644); err != nil {
		t.Fatal(err)
	}
}
