package c03

import (
	"os"
	"path/filepath"
	"testing"
	"unicode/utf8"

	"verif/lib/ev"
)

// FuzzBuild: coverage-guided bytes through the mirror oracle.
func FuzzBuild(f *testing.F) {
	ev.Setup()
	repo := os.Getenv("VERIF_REPO")
	if repo == "" {
		repo = "/repo"
	}
	for _, g := range []string{"testdata/*.yang", "pkg/yang/testdata/*.yang"} {
		files, _ := filepath.Glob(filepath.Join(repo, g))
		for _, p := range files {
			if b, err := os.ReadFile(p); err == nil && len(b) < 16<<10 {
				f.Add(b)
			}
		}
	}
	for _, s := range []string{"module m { namespace \"urn:m\"; prefix m; leaf l { type string; p:ext x { y z; } } }", "submodule s { belongs-to m { prefix m; } }", "foo bar;", "module m { Name x; }", "module m { namespace n; prefix p; prefix q; }"} {
		f.Add([]byte(s))
	}
	f.Fuzz(func(t *testing.T, data []byte) {
		if len(data) > 16<<10 || !utf8.Valid(data) {
			return
		}
		c := Case{Text: string(data)}
		ev.FuzzJudge(t, "C03", c, check(c))
	})
}
