// C03 — the AST mirrors the statement tree one-to-one or the build fails.
package c03

import (
	"fmt"
	"reflect"
	"strings"
	"testing"

	"github.com/openconfig/goyang/pkg/yang"
	"pgregory.net/rapid"

	"verif/lib/astinfo"
	"verif/lib/ev"
	"verif/lib/rfc6"
	"verif/lib/textgen"
)

type Case struct {
	Text string `json:"text"`
}

// mandatory substatements the property pins.
var mandatory = map[string][]string{
	"leaf": {"type"}, "leaf-list": {"type"}, "typedef": {"type"},
	"import": {"prefix"}, "belongs-to": {"prefix"},
	"module": {"namespace", "prefix"}, "submodule": {"belongs-to"},
	"deviation": {"deviate"},
}

func stmtEqual(a, b *yang.Statement) string {
	if a == nil || b == nil {
		if a == b {
			return ""
		}
		return "one statement is nil"
	}
	aa, ah := a.Arg()
	ba, bh := b.Arg()
	if a.Keyword != b.Keyword || aa != ba || ah != bh {
		return fmt.Sprintf("statement %q %q vs %q %q", a.Keyword, aa, b.Keyword, ba)
	}
	if a.Location() != b.Location() {
		return fmt.Sprintf("statement %q at %s vs %s", a.Keyword, a.Location(), b.Location())
	}
	as, bs := a.SubStatements(), b.SubStatements()
	if len(as) != len(bs) {
		return fmt.Sprintf("statement %q at %s has %d vs %d substatements", a.Keyword, a.Location(), len(as), len(bs))
	}
	for i := range as {
		if d := stmtEqual(as[i], bs[i]); d != "" {
			return d
		}
	}
	return ""
}

func isNilNode(n yang.Node) bool {
	return n == nil || (reflect.ValueOf(n).Kind() == reflect.Ptr && reflect.ValueOf(n).IsNil())
}

type mirror struct {
	o     *ev.Outcome
	nodes int
	kinds map[string]bool
	// seen: every node met, in order (for the queries of the second pass)
	seen []yang.Node
	// again: this is the second pass (after processing and read-only queries); signatures say so
	again bool
}

func (m *mirror) fail(clause, sig, format string, args ...any) {
	if len(m.o.Violations) == 0 {
		if m.again {
			sig = "after-process-and-queries/" + sig
			format = "after Process and read-only queries: " + format
		}
		m.o.Violate(clause, "C03/"+sig, format, args...)
	}
}

// check verifies that node n mirrors statement s under parent.
func (m *mirror) check(n yang.Node, s *yang.Statement, parent yang.Node) {
	if len(m.o.Violations) > 0 {
		return
	}
	m.nodes++
	m.kinds[s.Keyword] = true
	m.seen = append(m.seen, n)
	at := s.Keyword + " at " + s.Location()
	if d := stmtEqual(n.Statement(), s); d != "" {
		m.fail("back-reference", "back-reference/"+kwClass(s.Keyword), "node for %s refers back to a different statement: %s", at, d)
		return
	}
	if n.NName() != s.Argument {
		m.fail("name", "name/"+kwClass(s.Keyword), "node for %s is named %q, the statement's argument is %q", at, n.NName(), s.Argument)
		return
	}
	pn := n.ParentNode()
	if parent == nil {
		if !isNilNode(pn) {
			m.fail("parent-link", "parent-link/root-has-parent", "root node for %s has a parent", at)
			return
		}
	} else if pn != parent {
		m.fail("parent-link", "parent-link/"+kwClass(s.Keyword), "node for %s links to a parent that is not its enclosing node", at)
		return
	}
	for _, req := range mandatory[s.Keyword] {
		found := false
		for _, ss := range s.SubStatements() {
			if ss.Keyword == req {
				found = true
			}
		}
		if !found {
			m.fail("mandatory-rejected", "accepted-without-mandatory/"+s.Keyword+"/"+req, "%s was accepted without its mandatory %s substatement", at, req)
			return
		}
	}
	v := reflect.ValueOf(n)
	if v.Kind() != reflect.Ptr || v.Elem().Kind() != reflect.Struct {
		m.fail("shape", "node-not-struct", "node for %s is not a struct pointer", at)
		return
	}
	sv := v.Elem()
	st := sv.Type()
	fieldOf := map[string]int{}
	total := 0
	for i := 0; i < st.NumField(); i++ {
		tag := strings.Split(st.Field(i).Tag.Get("yang"), ",")[0]
		switch tag {
		case "", "Name", "Statement", "Parent":
			continue
		case "Ext":
			continue
		}
		fieldOf[tag] = i
		f := sv.Field(i)
		switch f.Kind() {
		case reflect.Slice:
			total += f.Len()
		case reflect.Ptr:
			if !f.IsNil() {
				total++
			}
		}
	}
	exts := n.Exts()
	total += len(exts)
	subs := s.SubStatements()
	rank := map[string]int{}
	extRank := 0
	for _, ss := range subs {
		if strings.Count(ss.Keyword, ":") == 1 {
			if extRank >= len(exts) {
				m.fail("one-to-one", "extension-missing", "prefixed statement %s at %s is not in the extensions of %s", ss.Keyword, ss.Location(), at)
				return
			}
			if d := stmtEqual(exts[extRank], ss); d != "" {
				m.fail("one-to-one", "extension-order-or-content", "extension #%d of %s is not %s at %s: %s", extRank, at, ss.Keyword, ss.Location(), d)
				return
			}
			extRank++
			continue
		}
		fi, ok := fieldOf[ss.Keyword]
		if !ok {
			m.fail("unknown-rejected", "accepted-unknown-keyword/"+kwClass(ss.Keyword)+"-under-"+kwClass(s.Keyword), "%s accepted with substatement %q at %s, which it has no place for", at, ss.Keyword, ss.Location())
			return
		}
		f := sv.Field(fi)
		r := rank[ss.Keyword]
		rank[ss.Keyword]++
		var child reflect.Value
		switch f.Kind() {
		case reflect.Slice:
			if r >= f.Len() {
				m.fail("one-to-one", "child-missing/"+kwClass(ss.Keyword), "occurrence #%d of %s under %s has no node", r, ss.Keyword, at)
				return
			}
			child = f.Index(r)
		case reflect.Ptr:
			if r > 0 {
				m.fail("single-valued-rejected", "accepted-second-single/"+kwClass(ss.Keyword), "%s accepted with a second %s at %s", at, ss.Keyword, ss.Location())
				return
			}
			if f.IsNil() {
				m.fail("one-to-one", "child-missing/"+kwClass(ss.Keyword), "%s under %s has no node", ss.Keyword, at)
				return
			}
			child = f
		default:
			m.fail("shape", "field-kind", "field for %s is neither pointer nor slice", ss.Keyword)
			return
		}
		cn, ok := child.Interface().(yang.Node)
		if !ok {
			m.fail("shape", "child-not-node", "child %s of %s is not a Node", ss.Keyword, at)
			return
		}
		m.check(cn, ss, n)
		if len(m.o.Violations) > 0 {
			return
		}
	}
	if total != len(subs) {
		m.fail("one-to-one", "count/"+kwClass(s.Keyword), "node for %s holds %d child nodes and extensions, the statement has %d substatements (something was invented)", at, total, len(subs))
	}
}

func kwClass(k string) string {
	switch k {
	case "Name", "Statement", "Parent", "Ext":
		return "meta-name-" + k
	}
	if _, ok := astinfo.Table()[k]; ok {
		return k
	}
	if strings.Contains(k, ":") {
		return "prefixed"
	}
	return "other"
}

func check(c Case) (o ev.Outcome) {
	o.Key = c.Text
	o.Sample = c.Text
	ss, perr := yang.Parse(c.Text, "f.yang")
	if perr != nil {
		o.OutOfClaim = "not a statement tree (generic parse error)"
		return
	}
	if len(ss) == 0 {
		o.OutOfClaim = "empty text"
		return
	}
	nstmt := 0
	var count func([]*yang.Statement)
	count = func(x []*yang.Statement) {
		for _, s := range x {
			nstmt++
			count(s.SubStatements())
		}
	}
	count(ss)
	var ms *yang.Modules
	var err error
	if !ev.Guard(&o, "Modules.Parse", func() {
		ms = yang.NewModules()
		err = ms.Parse(c.Text, "f.yang")
	}) {
		// a panic while building is a violation of "fails with an error"
		for i := range o.Violations {
			o.Violations[i].Sig = "C03/" + o.Violations[i].Sig
		}
		o.NonTrivial = true
		o.Class("panic")
		return
	}
	if err != nil {
		o.Class("rejected")
		o.NonTrivial = nstmt >= 3
		if strings.TrimSpace(err.Error()) == "" {
			o.Violate("error-nonempty", "C03/empty-error", "rejected with an empty error")
		}
		return
	}
	o.Class("accepted")
	type built struct {
		mod *yang.Module
		s   *yang.Statement
	}
	var checked []built
	m := &mirror{o: &o, kinds: map[string]bool{}}
	for _, s := range ss {
		if s.Keyword != "module" && s.Keyword != "submodule" {
			m.fail("top-level-rejected", "accepted-top-level/"+kwClass(s.Keyword), "top-level statement %q at %s is not a module or submodule, yet the text was accepted", s.Keyword, s.Location())
			return
		}
		reg := ms.Modules
		if s.Keyword == "submodule" {
			reg = ms.SubModules
		}
		mod := reg[s.Argument]
		if mod == nil {
			m.fail("filed-under-name", "not-filed", "%s %q accepted but not filed under its name", s.Keyword, s.Argument)
			return
		}
		// with several (sub)modules of one name in the text the bare key may hold another one; ours is the one
		// whose statement stands where s stands (the comparison of the whole subtree is the mirror's business:
		// a registry entry whose statement tree is damaged must not pass for "another module")
		same := func(x *yang.Module) bool {
			st := x.Statement()
			return st != nil && st.Keyword == s.Keyword && st.Argument == s.Argument && st.Location() == s.Location()
		}
		if !same(mod) {
			found := false
			for _, cand := range reg {
				if same(cand) {
					mod, found = cand, true
					break
				}
			}
			if !found {
				twins := 0
				for _, x := range ss {
					if x.Keyword == s.Keyword && x.Argument == s.Argument {
						twins++
					}
				}
				if twins < 2 {
					m.fail("filed-under-name", "filed-module-is-another", "%s %q at %s accepted, but what is filed under its name was built from another statement", s.Keyword, s.Argument, s.Location())
					return
				}
				// the bare name is held by another accepted text of that name (a later revision): this
				// module is not reachable through the registry, so its tree cannot be observed here
				o.OutOfClaim = "accepted module of a name whose registry entry denotes another revision (not observable; C13 decides the binding)"
				return
			}
		}
		m.check(mod, s, nil)
		checked = append(checked, built{mod, s})
	}
	o.NonTrivial = m.nodes >= 6 && len(m.kinds) >= 3
	if len(o.Violations) > 0 || len(checked) == 0 {
		return o
	}
	// Second pass: the tree is a mirror of the text, not a state that the next reader changes. Processing the set
	// and asking every node the read-only questions of the Node interface and for its extensions of a given name
	// leaves the correspondence as it was.
	if !ev.Guard(&o, "process and query", func() {
		ms.Process()
		for _, n := range m.seen {
			n.Kind()
			n.Exts()
			yang.MatchingExtensions(n, "openconfig-extensions", "posix-pattern")
			for _, b := range checked {
				yang.MatchingExtensions(n, b.mod.Name, "ext")
				yang.MatchingExtensions(n, b.mod.Name, "why")
			}
		}
	}) {
		// crashes of Process are C01's business
		o.Violations = nil
		return o
	}
	m2 := &mirror{o: &o, kinds: map[string]bool{}, again: true}
	for _, b := range checked {
		m2.check(b.mod, b.s, nil)
	}
	return o
}

// ---- generator ----

type gen struct {
	t      *rapid.T
	budget int
	n      int
	// sprinkle: extension statements are strewn over the tree while it is grown
	sprinkle bool
}

var metaNames = []string{"Name", "Statement", "Parent", "Ext"}

func (g *gen) arg(k string) (string, bool) {
	switch rapid.IntRange(0, 9).Draw(g.t, "arg-kind") {
	case 0:
		return "", false
	case 1:
		return rapid.StringOfN(rapid.RuneFrom([]rune{'a', ' ', '"', '\n', 'é', '/', ':'}), 0, 8, -1).Draw(g.t, "odd-arg"), true
	}
	g.n++
	return fmt.Sprintf("%c%d", 'a'+rune(g.n%5), g.n), true
}

func (g *gen) stmt(k string, depth int) *rfc6.Node {
	n := &rfc6.Node{Keyword: k}
	n.Arg, n.HasArg = g.arg(k)
	info := astinfo.Table()[k]
	if info == nil || depth > 4 {
		return n
	}
	// children in random order
	idx := rapid.Permutation(seq(len(info.Children))).Draw(g.t, "child-order")
	for _, i := range idx {
		c := info.Children[i]
		must := c.Required || c.ReqFor == k
		other := c.ReqFor != "" && c.ReqFor != k
		if other {
			continue
		}
		want := 0
		switch {
		case must:
			want = 1
		case g.budget > 0 && rapid.IntRange(0, 5).Draw(g.t, "include-child") == 0:
			want = 1
			if c.Multi {
				want = rapid.IntRange(1, 3).Draw(g.t, "copies")
			}
		}
		for j := 0; j < want; j++ {
			g.budget--
			n.Subs = append(n.Subs, g.stmt(c.Keyword, depth+1))
		}
	}
	// children of the same keyword stay in generated order; mix the rest
	// extension statements between them: singly and in runs, before, between and after the known substatements
	if g.sprinkle && rapid.IntRange(0, 3).Draw(g.t, "extensions-here") == 0 {
		k := rapid.IntRange(1, 4).Draw(g.t, "extensions")
		for j := 0; j < k; j++ {
			c := &rfc6.Node{Keyword: rapid.SampledFrom([]string{"p:ext", "oc-ext:posix-pattern", "x:y", "p:ext"}).Draw(g.t, "sprinkled-keyword")}
			c.Arg, c.HasArg = g.arg("")
			if rapid.IntRange(0, 3).Draw(g.t, "sprinkled-children") == 0 {
				c.Subs = append(c.Subs, &rfc6.Node{Keyword: rapid.SampledFrom([]string{"foo", "leaf", "q:r"}).Draw(g.t, "sprinkled-child"), HasArg: true, Arg: "v"})
			}
			i := rapid.IntRange(0, len(n.Subs)).Draw(g.t, "sprinkle-at")
			n.Subs = append(n.Subs[:i:i], append([]*rfc6.Node{c}, n.Subs[i:]...)...)
		}
	}
	return n
}

func seq(n int) []int {
	s := make([]int, n)
	for i := range s {
		s[i] = i
	}
	return s
}

func (g *gen) collect(f []*rfc6.Node) []*rfc6.Node {
	var all []*rfc6.Node
	textgen.Walk(f, nil, func(n, _ *rfc6.Node) { all = append(all, n) })
	return all
}

func (g *gen) perturb(f []*rfc6.Node) []*rfc6.Node {
	t := g.t
	all := g.collect(f)
	pick := func(label string) *rfc6.Node { return all[rapid.IntRange(0, len(all)-1).Draw(t, label)] }
	insert := func(p, c *rfc6.Node) {
		i := rapid.IntRange(0, len(p.Subs)).Draw(t, "insert-at")
		p.Subs = append(p.Subs[:i:i], append([]*rfc6.Node{c}, p.Subs[i:]...)...)
	}
	switch rapid.IntRange(0, 8).Draw(t, "perturbation") {
	case 8: // put a prefix in front of a keyword (often a mandatory one): "p:type string;" is an extension, not a type
		var cands []*rfc6.Node
		for _, n := range all {
			switch n.Keyword {
			case "type", "prefix", "namespace", "belongs-to", "deviate", "key", "config":
				cands = append(cands, n)
			}
		}
		if len(cands) == 0 {
			cands = all
		}
		v := cands[rapid.IntRange(0, len(cands)-1).Draw(t, "prefixed-victim")]
		if !strings.Contains(v.Keyword, ":") {
			v.Keyword = rapid.SampledFrom([]string{"p:", "m:", "x-y:"}).Draw(t, "kw-prefix") + v.Keyword
		}
	case 0: // keyword not valid in that context: another YANG keyword
		p := pick("parent")
		k := rapid.SampledFrom(astinfo.Keywords()).Draw(t, "foreign")
		insert(p, g.stmt(k, 4))
	case 1: // random identifier or meta-name
		p := pick("parent")
		k := rapid.SampledFrom(append([]string{"foo", "bar-baz", "a:b:c", ":", "x:"}, metaNames...)).Draw(t, "odd-keyword")
		c := &rfc6.Node{Keyword: k}
		c.Arg, c.HasArg = g.arg(k)
		insert(p, c)
	case 2: // second occurrence of a child
		p := pick("parent")
		if len(p.Subs) > 0 {
			c := p.Subs[rapid.IntRange(0, len(p.Subs)-1).Draw(t, "dup-child")]
			cp := *c
			insert(p, &cp)
		}
	case 3: // remove a child (often a mandatory one)
		p := pick("parent")
		if len(p.Subs) > 0 {
			i := rapid.IntRange(0, len(p.Subs)-1).Draw(t, "remove-child")
			p.Subs = append(p.Subs[:i:i], p.Subs[i+1:]...)
		}
	case 4, 5: // prefixed extension statement, with or without argument and children
		p := pick("parent")
		c := &rfc6.Node{Keyword: rapid.SampledFrom([]string{"p:ext", "oc-ext:posix-pattern", "x:y"}).Draw(t, "ext-keyword")}
		c.Arg, c.HasArg = g.arg("")
		if rapid.Bool().Draw(t, "ext-children") {
			c.Subs = append(c.Subs, &rfc6.Node{Keyword: rapid.SampledFrom([]string{"foo", "leaf", "q:r", "Name"}).Draw(t, "ext-child"), HasArg: true, Arg: "v"})
		}
		insert(p, c)
	case 6: // another top-level statement
		k := rapid.SampledFrom(append([]string{"foo", "container", "leaf", "module", "submodule", "typedef", "p:ext", "description"}, metaNames...)).Draw(t, "top-keyword")
		f = append(f, g.stmt(k, 3))
	default: // change a keyword in place
		p := pick("victim")
		p.Keyword = rapid.SampledFrom(append(astinfo.Keywords(), metaNames...)).Draw(t, "new-keyword")
	}
	return f
}

func generate(t *rapid.T) Case {
	g := &gen{t: t, budget: rapid.IntRange(3, 40).Draw(t, "budget")}
	g.sprinkle = rapid.IntRange(0, 2).Draw(t, "sprinkle-extensions") == 0
	root := rapid.SampledFrom([]string{"module", "module", "module", "submodule"}).Draw(t, "root")
	f := []*rfc6.Node{g.stmt(root, 0)}
	np := rapid.IntRange(0, 3).Draw(t, "perturbations")
	if np == 3 {
		np = 0
	}
	for i := 0; i < np; i++ {
		f = g.perturb(f)
	}
	for _, n := range g.collect(f) {
		if !rfc6.UnquotedOK(n.Keyword) {
			n.Keyword = "foo"
		}
	}
	// In half of the trees the strewn extension statements carry the module's own prefix (a prefix goyang can
	// resolve, so that the queries for extensions of a given module and name have something to match and
	// something to pass over).
	if len(f) > 0 && f[0].Keyword == "module" && rapid.Bool().Draw(t, "own-prefix-on-extensions") {
		own := ""
		for _, c := range f[0].Subs {
			if c.Keyword == "prefix" && c.HasArg {
				own = c.Arg
			}
		}
		if own != "" && rfc6.UnquotedOK(own+":ext") && !strings.ContainsAny(own, ":") {
			for _, n := range g.collect(f) {
				switch n.Keyword {
				case "p:ext":
					n.Keyword = own + ":ext"
				case "x:y":
					n.Keyword = own + ":why"
				}
			}
		}
	}
	p := rfc6.NewPrinter(textgen.Chooser{T: t})
	p.Plain = rapid.IntRange(0, 3).Draw(t, "plain") > 0
	p.Forest(f)
	return Case{Text: p.String()}
}

func TestCheck(t *testing.T) {
	ev.Run(t, ev.Spec[Case]{
		ID:    "C03",
		Level: "exploration",
		Rule: "statement trees rooted at module/submodule, grown along the (parent keyword -> child keyword, multiplicity) table read by reflection from goyang's AST structs so that most are accepted and deep, then perturbed 0-2 times: a keyword not valid in that context (another YANG keyword, a random identifier, a two-colon name, the meta-names Name/Statement/Parent/Ext), a second occurrence of a child, removal of a child, prefixed extension statements with and without arguments and children at any level (a third of the trees are also grown with extension statements strewn singly and in runs between the known substatements), another top-level statement, a keyword changed in place. " +
			"Oracle (a function of the text alone): Modules.Parse returns an error or nil without panicking; if nil, every top-level statement is a (sub)module filed under its name and a reflection walk finds the nodes in one-to-one correspondence with an independently parsed statement tree: back-reference structurally the statement (keyword, argument, position, subtree), name = argument, parent link = enclosing node, each substatement exactly once in the field of its keyword in source order or in the extensions list, counts equal (nothing invented or dropped); pinned mandatory substatements present; the same walk is made a second time after Modules.Process and after every node was asked for its kind, its extensions and its extensions of a given name (the tree mirrors the text, whoever has read it in between). " +
			"Non-trivial = accepted with >= 6 nodes of >= 3 different kinds, or rejected with >= 3 statements, or a panic; distinct by text",
		Assumptions: []string{
			"the reflection table steers generation only; acceptance of valid trees is not demanded (the property allows failing with an error)",
			"a keyword with exactly one colon counts as prefixed",
			"texts that are not statement trees (generic parse errors) are outside this property",
		},
		Check: check,
		Gen:   generate,
	})
}
