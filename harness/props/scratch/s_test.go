package scratch

import (
	"fmt"
	"testing"

	"pgregory.net/rapid"

	"verif/lib/schema"
	"verif/lib/ymodel"
)

// count shape: grouping X1 (scoped, below a node) whose body uses some grouping Y by unprefixed name, where Y's body
// somewhere below a node defines a grouping with X1's name and uses it.
func TestShape(t *testing.T) {
	total, scoped, usesOuter, shape := 0, 0, 0, 0
	rapid.Check(t, func(t *rapid.T) {
		set, _ := schema.Generate(t, ymodel.DefaultOpts())
		total++
		// index top-level groupings by name per module
		for _, m := range set.Modules {
			top := map[string]*ymodel.Grouping{}
			for _, g := range m.Groupings {
				top[g.Name] = g
			}
			var definesAndUses func(b *ymodel.Body, name string, below bool) bool
			definesAndUses = func(b *ymodel.Body, name string, below bool) bool {
				if below {
					def := false
					for _, g := range b.Groupings {
						if g.Name == name {
							def = true
						}
					}
					if def {
						for _, n := range b.Nodes {
							if n.Kind == ymodel.KUses && n.Name == name {
								return true
							}
						}
					}
				}
				for _, n := range b.Nodes {
					if definesAndUses(&n.Body, name, true) {
						return true
					}
				}
				return false
			}
			var walk func(b *ymodel.Body, depth int)
			walk = func(b *ymodel.Body, depth int) {
				for _, n := range b.Nodes {
					for _, g := range n.Groupings {
						scoped++
						for _, u := range g.Nodes {
							if u.Kind == ymodel.KUses {
								if y := top[u.Name]; y != nil && y.Name != g.Name {
									usesOuter++
									if definesAndUses(&y.Body, g.Name, false) {
										shape++
									}
								}
							}
						}
					}
					walk(&n.Body, depth+1)
				}
			}
			walk(&m.Body, 0)
		}
	})
	fmt.Println("total", total, "scoped groupings", scoped, "scoped using top-level", usesOuter, "shape", shape)
}
