// C05 — same sources and options give the same result, whatever the load order.
package c05

import (
	"bytes"
	"encoding/json"
	"fmt"
	"os"
	"os/exec"
	"path/filepath"
	"regexp"
	"sort"
	"strconv"
	"strings"
	"testing"

	"github.com/openconfig/goyang/pkg/yang"
	"pgregory.net/rapid"

	"github.com/openconfig/goyang/pkg/yangentry"

	"verif/lib/canon"
	"verif/lib/ev"
	"verif/lib/hostile"
	"verif/lib/schema"
	"verif/lib/ymodel"
	"verif/lib/yref"
)

type Case struct {
	Sources []ymodel.Source `json:"sources"`
	Perms   [][]int         `json:"perms"`
	Runs    int             `json:"runs"`
	Ignore  bool            `json:"ignore_not_supported,omitempty"`
	CLI     bool            `json:"cli,omitempty"`
	// Lenient: processing goes on after a text was rejected at load (as the command line does); used with the
	// hostile texts, most of which hold a rejected file.
	Lenient    bool `json:"lenient,omitempty"`
	IgnoreCirc bool `json:"ignore_circular,omitempty"`
	StoreUses  bool `json:"store_uses,omitempty"`
	// Features the generator put in (for classes and signatures)
	Features []string `json:"features,omitempty"`
}

func dump(ms *yang.Modules) string {
	var b strings.Builder
	for _, reg := range []map[string]*yang.Module{ms.Modules, ms.SubModules} {
		names := make([]string, 0, len(reg))
		for k := range reg {
			names = append(names, k)
		}
		sort.Strings(names)
		for _, k := range names {
			m := reg[k]
			var problems []string
			x := canon.Entry(yang.ToEntry(m), canon.Opts{Attrs: m.Kind() == "module"}, &problems)
			j, _ := json.Marshal(x)
			fmt.Fprintf(&b, "%s: %s %v\n", k, j, problems)
			for _, id := range m.Identity {
				fmt.Fprintf(&b, "  identity %s:", id.Name)
				for _, v := range id.Values {
					// the text that holds the identity: kind, name@revision (a module and a submodule may share a name)
					fmt.Fprintf(&b, " %s %s:%s", yang.RootNode(v).Kind(), yang.RootNode(v).FullName(), v.Name)
				}
				b.WriteByte('\n')
			}
		}
	}
	return b.String()
}

// a position is file:line:col, or "line L:C" for a text that was handed over without a name (Statement.Location)
var posRE = regexp.MustCompile(`^(?:([^:\s]+\.yang):|line )(\d+):(\d+):`)

type result struct {
	parseErrs []string
	errs      []string
	dump      string
}

func (r result) String() string {
	return fmt.Sprintf("parse=%q\nerrors=%q\n%s", r.parseErrs, r.errs, r.dump)
}

func run(c Case, perm []int) result {
	ms := yang.NewModules()
	ms.ParseOptions.DeviateOptions.IgnoreDeviateNotSupported = c.Ignore
	ms.ParseOptions.IgnoreSubmoduleCircularDependencies = c.IgnoreCirc
	ms.ParseOptions.StoreUses = c.StoreUses
	var res result
	perFile := make([]string, len(c.Sources))
	for _, i := range perm {
		s := c.Sources[i]
		if err := ms.Parse(s.Text, s.Name); err != nil {
			perFile[i] = err.Error()
		}
	}
	for i, e := range perFile {
		if e != "" {
			res.parseErrs = append(res.parseErrs, c.Sources[i].Name+" => "+e)
		}
	}
	if len(res.parseErrs) > 0 && !c.Lenient {
		return res
	}
	errs := ms.Process()
	res.errs = canon.ErrStrings(errs)
	if len(errs) == 0 {
		res.dump = dump(ms)
	}
	return res
}

func dupLoad(r result) bool {
	for _, e := range r.parseErrs {
		if strings.Contains(e, "duplicate") {
			return true
		}
	}
	return false
}

func featureClass(c Case) string {
	if len(c.Features) == 0 {
		return "plain"
	}
	f := append([]string(nil), c.Features...)
	sort.Strings(f)
	return strings.Join(f, "+")
}

func diffWhere(a, b result) (string, string) {
	switch {
	case fmt.Sprint(a.parseErrs) != fmt.Sprint(b.parseErrs):
		return "load-errors", fmt.Sprintf("%q vs %q", a.parseErrs, b.parseErrs)
	case fmt.Sprint(a.errs) != fmt.Sprint(b.errs):
		return "error-list", fmt.Sprintf("%q vs %q", a.errs, b.errs)
	}
	la, lb := strings.Split(a.dump, "\n"), strings.Split(b.dump, "\n")
	for i := 0; i < len(la) && i < len(lb); i++ {
		if la[i] != lb[i] {
			what := "tree"
			if strings.HasPrefix(strings.TrimSpace(la[i]), "identity") {
				what = "identity-values"
			}
			return what, fmt.Sprintf("dump line %d: %.400s vs %.400s", i, la[i], lb[i])
		}
	}
	return "tree", "dumps differ in length"
}

func check(c Case) (o ev.Outcome) {
	o.Sample = map[string]any{"features": c.Features, "perms": len(c.Perms), "runs": c.Runs, "cli": c.CLI, "sources": c.Sources}
	for _, f := range c.Features {
		o.Class("feature/" + f)
	}
	o.NonTrivial = len(c.Sources) >= 2 && len(c.Features) >= 1
	fc := featureClass(c)
	var first *result
	runs := c.Runs
	if runs < 1 {
		runs = 1
	}
	total := 0
	ev.Guard(&o, "load+process", func() {
		for pi, perm := range c.Perms {
			for r := 0; r < runs; r++ {
				res := run(c, perm)
				total++
				// error lists: sorted by position, no duplicates
				seen := map[string]bool{}
				var lastFile string
				lastLine, lastCol := -1, -1
				for _, e := range res.errs {
					if seen[e] {
						o.Violate("errors-deduplicated", "C05/error-list/duplicate-entry", "load order %v: the error %q is returned twice: %q", perm, e, res.errs)
						return
					}
					seen[e] = true
					if m := posRE.FindStringSubmatch(e); m != nil {
						l, _ := strconv.Atoi(m[2])
						cc, _ := strconv.Atoi(m[3])
						if lastLine >= 0 && (m[1] < lastFile || (m[1] == lastFile && (l < lastLine || (l == lastLine && cc < lastCol)))) {
							o.Violate("errors-sorted", "C05/error-list/not-sorted", "load order %v: errors are not ordered by file, line, column: %q", perm, res.errs)
							return
						}
						lastFile, lastLine, lastCol = m[1], l, cc
					}
				}
				if pi > 0 && r == 0 && first != nil && (dupLoad(*first) || dupLoad(res)) {
					// which of two texts of one module is the duplicate depends, rightly, on the load order:
					// such sets are compared run against run within each order only
					first = nil
				}
				if first == nil {
					first = &res
					continue
				}
				if first.String() != res.String() {
					what, detail := diffWhere(*first, res)
					how := "across-load-orders"
					if pi == 0 {
						how = "across-repeated-runs"
					}
					o.Violate("same-result", "C05/"+what+"-varies/"+how+"/"+fc, "load order #%d %v, run %d differs from the first run: %s", pi, perm, r, detail)
					return
				}
			}
		}
	})
	for i := range o.Violations {
		if strings.HasPrefix(o.Violations[i].Sig, "panic/") {
			o.Violations[i].Sig = "C05/" + o.Violations[i].Sig
		}
	}
	if len(o.Violations) > 0 || !c.CLI {
		return
	}
	cli := os.Getenv("VERIF_CLI")
	if cli == "" {
		return
	}
	o.Class("cli")
	dir, err := ev.MkdirTemp("verif-c05-")
	if err != nil {
		panic(err)
	}
	defer os.RemoveAll(dir)
	var files []string
	for _, s := range c.Sources {
		os.WriteFile(filepath.Join(dir, s.Name), []byte(s.Text), 0o644)
		files = append(files, s.Name)
	}
	rev := make([]string, len(files))
	for i, f := range files {
		rev[len(files)-1-i] = f
	}
	// the importers alone: what they import is then fetched from the directory
	var users []string
	for _, f := range files {
		if strings.HasPrefix(f, "user") {
			users = append(users, f)
		}
	}
	type variant struct {
		name  string
		flags []string
		fwd   []string
		back  []string
	}
	variants := []variant{{"tree", []string{"--format", "tree"}, files, rev}, {"types", []string{"--format", "types"}, files, rev}, {"types-debug", []string{"--format", "types", "--types_debug"}, files, rev}}
	if len(users) > 0 && len(users) < len(files) {
		ru := make([]string, len(users))
		for i, f := range users {
			ru[len(users)-1-i] = f
		}
		variants = append(variants, variant{"tree-imports-fetched", []string{"--format", "tree"}, users, ru}, variant{"types-imports-fetched", []string{"--format", "types"}, users, ru})
		// the two revisions of one importer alone (nothing else decides what is fetched first)
		var pair, rpair []string
		for _, f := range users {
			if strings.HasPrefix(f, "userr@") {
				pair = append(pair, f)
				rpair = append([]string{f}, rpair...)
			}
		}
		if len(pair) == 2 {
			variants = append(variants, variant{"types-imports-fetched-by-two-revisions", []string{"--format", "types"}, pair, rpair})
		}
	}
	// the library's own file-based entry point
	{
		var first string
		for i := 0; i < 6; i++ {
			var names []string
			for _, f := range files {
				names = append(names, filepath.Join(dir, f))
			}
			entries, errs := yangentry.Parse(names, []string{dir})
			var keys []string
			for k, e := range entries {
				held := "?"
				if m, ok := e.Node.(*yang.Module); ok {
					held = m.FullName()
				}
				keys = append(keys, k+"="+held)
			}
			sort.Strings(keys)
			res := fmt.Sprintf("%v %q", keys, canon.ErrStrings(errs))
			if i == 0 {
				first = res
			} else if res != first {
				o.Violate("cli-reproducible", "C05/yangentry-parse-varies", "yangentry.Parse of the same files: run %d gives %s, run 0 gave %s", i, res, first)
				return
			}
		}
	}
	if len(users) > 0 && len(users) < len(files) {
		// --path: the importers lie in one directory, every other text in a directory of its own below another one;
		// the command walks that one (PathsWithModules) and what the imports fetch follows the order of the walk.
		// The directory names are such that the order of the walk is not the order of the names' lengths or dates.
		split := filepath.Join(dir, "split")
		udir, pdir := filepath.Join(split, "u"), filepath.Join(split, "p")
		os.MkdirAll(udir, 0o755)
		k := 0
		for _, sc := range c.Sources {
			if strings.HasPrefix(sc.Name, "user") {
				os.WriteFile(filepath.Join(udir, sc.Name), []byte(sc.Text), 0o644)
				continue
			}
			d := filepath.Join(pdir, []string{"m", "b/x", "z", "b/a", "a", "y/y/y"}[k%6])
			k++
			os.MkdirAll(d, 0o755)
			os.WriteFile(filepath.Join(d, sc.Name), []byte(sc.Text), 0o644)
		}
		o.Class("cli-path-walk")
		for _, format := range []string{"tree", "types"} {
			var firstOut string
			for i := 0; i < 8; i++ {
				cmd := exec.Command(cli, append([]string{"--path", pdir, "--format", format}, users...)...)
				cmd.Dir = udir
				var out, errb bytes.Buffer
				cmd.Stdout, cmd.Stderr = &out, &errb
				err := cmd.Run()
				res := fmt.Sprintf("exit=%v\nstdout:\n%s\nstderr:\n%s", err, out.String(), errb.String())
				if i == 0 {
					firstOut = res
				} else if res != firstOut {
					o.Violate("cli-reproducible", "C05/cli-output-varies/path-walk-"+format, "goyang --path p --format %s %v, texts spread over sub-directories of p: run %d differs from run 0:\n%.600s\n--- vs ---\n%.600s", format, users, i, res, firstOut)
					return
				}
			}
		}
	}
	for _, v := range variants {
		format := v.name
		var firstOut string
		for i := 0; i < 6; i++ {
			args := append([]string(nil), v.flags...)
			if i%2 == 0 {
				args = append(args, v.fwd...)
			} else {
				args = append(args, v.back...)
			}
			cmd := exec.Command(cli, args...)
			cmd.Dir = dir
			var out, errb bytes.Buffer
			cmd.Stdout, cmd.Stderr = &out, &errb
			err := cmd.Run()
			res := fmt.Sprintf("exit=%v\nstdout:\n%s\nstderr:\n%s", err, out.String(), errb.String())
			if i == 0 {
				firstOut = res
				continue
			}
			if res != firstOut {
				o.Violate("cli-reproducible", "C05/cli-output-varies/"+format, "goyang %s: run %d (arguments %v) differs from run 0:\n%.600s\n--- vs ---\n%.600s", format, i, args, res, firstOut)
				return
			}
		}
	}
	return o
}

// ---- generator ----

func addTies(t *rapid.T, set *ymodel.Set) bool {
	// two modules derive an identity of the same name from one base
	var mods []*ymodel.Module
	for _, m := range set.Modules {
		if !m.IsSub {
			mods = append(mods, m)
		}
	}
	if len(mods) < 2 {
		return false
	}
	base := mods[0]
	base.Identities = append(base.Identities, &ymodel.Identity{Name: "tiebase"})
	n := 0
	for _, m := range mods[1:] {
		for _, im := range m.Imports {
			if im.Module == base.Name {
				m.Identities = append(m.Identities, &ymodel.Identity{Name: "tied", Bases: []string{im.Prefix + ":tiebase"}})
				n++
			}
		}
	}
	base.Identities = append(base.Identities, &ymodel.Identity{Name: "tied", Bases: []string{"tiebase"}})
	return n >= 1
}

func plantFaults(t *rapid.T, set *ymodel.Set) []string {
	var feats []string
	r := yref.New(set)
	trees := r.Expand()
	if len(r.Problems) > 0 {
		return nil
	}
	k := rapid.IntRange(1, 3).Draw(t, "faults")
	for i := 0; i < k; i++ {
		m := set.Modules[rapid.IntRange(0, len(set.Modules)-1).Draw(t, "fault-module")]
		switch rapid.IntRange(0, 7).Draw(t, "fault-kind") {
		case 7: // several errors that carry one position (the module statement) and texts that agree up to a later
			// colon: bases that do not resolve behind one prefix, some named twice; in identities and identityrefs
			owner := set.Owner(m)
			if owner == nil {
				owner = m
			}
			pfx := owner.Prefix
			if len(m.Imports) > 0 && rapid.Bool().Draw(t, "unresolved-foreign") {
				pfx = m.Imports[rapid.IntRange(0, len(m.Imports)-1).Draw(t, "unresolved-import")].Prefix
			}
			k := rapid.IntRange(2, 4).Draw(t, "unresolved-bases")
			inLeaves := rapid.Bool().Draw(t, "unresolved-in-leaves")
			for j := 0; j < k+1; j++ {
				base := fmt.Sprintf("%s:nosuchbase%d", pfx, j%k) // the last one repeats the first
				if inLeaves {
					m.Nodes = append(m.Nodes, &ymodel.Node{Kind: ymodel.KLeaf, Name: fmt.Sprintf("ubl%d-%d", i, j), Type: &ymodel.TypeRef{Name: "identityref", Base: base}})
				} else {
					m.Identities = append(m.Identities, &ymodel.Identity{Name: fmt.Sprintf("ubi%d-%d", i, j), Bases: []string{base}})
				}
			}
			feats = append(feats, "unresolved-bases-one-position")
		case 4: // typedef cycle whose links run directly, through a union or through a union in a union
			k := rapid.IntRange(2, 3).Draw(t, "cycle-len")
			for j := 0; j < k; j++ {
				next := &ymodel.TypeRef{Name: fmt.Sprintf("cyc%d-%d", i, (j+1)%k)}
				switch rapid.IntRange(0, 2).Draw(t, "link") {
				case 1:
					next = &ymodel.TypeRef{Name: "union", Union: []*ymodel.TypeRef{{Name: "string"}, next}}
				case 2:
					next = &ymodel.TypeRef{Name: "union", Union: []*ymodel.TypeRef{{Name: "union", Union: []*ymodel.TypeRef{next, {Name: "int8"}}}, {Name: "string"}}}
				}
				m.Typedefs = append(m.Typedefs, &ymodel.Typedef{Name: fmt.Sprintf("cyc%d-%d", i, j), Type: next})
			}
			if rapid.Bool().Draw(t, "cycle-user") {
				m.Nodes = append(m.Nodes, &ymodel.Node{Kind: ymodel.KLeaf, Name: fmt.Sprintf("cycl%d", i), Type: &ymodel.TypeRef{Name: fmt.Sprintf("cyc%d-%d", i, rapid.IntRange(0, k-1).Draw(t, "cycle-entry"))}})
			}
			feats = append(feats, "typedef-cycle")
		case 5: // grouping cycle, used from the same and from other modules
			k := rapid.IntRange(1, 3).Draw(t, "gcycle-len")
			owner := set.Owner(m)
			for j := 0; j < k; j++ {
				owner.Groupings = append(owner.Groupings, &ymodel.Grouping{Name: fmt.Sprintf("gcyc%d-%d", i, j), Body: ymodel.Body{Nodes: []*ymodel.Node{
					{Kind: ymodel.KLeaf, Name: fmt.Sprintf("gl%d", j), Type: &ymodel.TypeRef{Name: "string"}},
					{Kind: ymodel.KUses, Name: fmt.Sprintf("gcyc%d-%d", i, (j+1)%k)}}}})
			}
			for _, x := range set.Modules {
				entry := fmt.Sprintf("gcyc%d-%d", i, rapid.IntRange(0, k-1).Draw(t, "gcycle-entry"))
				if set.Owner(x) == owner {
					if rapid.Bool().Draw(t, "gcycle-own-user") {
						x.Nodes = append(x.Nodes, &ymodel.Node{Kind: ymodel.KContainer, Name: fmt.Sprintf("gcu%d", i), Body: ymodel.Body{Nodes: []*ymodel.Node{{Kind: ymodel.KUses, Name: entry}}}})
					}
					continue
				}
				for _, im := range x.Imports {
					if im.Module == owner.Name && rapid.Bool().Draw(t, "gcycle-foreign-user") {
						x.Nodes = append(x.Nodes, &ymodel.Node{Kind: ymodel.KContainer, Name: fmt.Sprintf("gcu%d", i), Body: ymodel.Body{Nodes: []*ymodel.Node{{Kind: ymodel.KUses, Name: im.Prefix + ":" + entry}}}})
					}
				}
			}
			feats = append(feats, "grouping-cycle")
		case 6: // augments that can only be applied late (their path names the implicit case of a shorthand
			// choice member), colliding with or depending on one another, from two modules where possible
			var cands []schema.Target
			for _, tg := range schema.AllNodes(set, trees, m) {
				if !lateTarget(tg, set, trees, m) {
					continue
				}
				if tg.Node.Kind == ymodel.KContainer || tg.Node.Kind == ymodel.KList || tg.Node.Kind == ymodel.KCase {
					cands = append(cands, tg)
				}
			}
			if len(cands) == 0 {
				continue
			}
			tg := cands[rapid.IntRange(0, len(cands)-1).Draw(t, "late-target")]
			other, otherPath := m, tg.Path
			for _, x := range set.Modules {
				if x == m {
					continue
				}
				for _, y := range schema.AllNodes(set, trees, x) {
					if y.Node == tg.Node {
						other, otherPath = x, y.Path
					}
				}
			}
			mk := func(name string, kids ...*ymodel.Node) *ymodel.Node {
				if len(kids) == 0 {
					return &ymodel.Node{Kind: ymodel.KLeaf, Name: name, Type: &ymodel.TypeRef{Name: "string"}}
				}
				return &ymodel.Node{Kind: ymodel.KContainer, Name: name, Body: ymodel.Body{Nodes: kids}}
			}
			if rapid.Bool().Draw(t, "late-collide") {
				m.Augments = append(m.Augments, &ymodel.Augment{Path: tg.Path, Body: ymodel.Body{Nodes: []*ymodel.Node{mk(fmt.Sprintf("late%d", i)), mk(fmt.Sprintf("mine%d", i))}}})
				other.Augments = append(other.Augments, &ymodel.Augment{Path: otherPath, Body: ymodel.Body{Nodes: []*ymodel.Node{mk(fmt.Sprintf("late%d", i), mk("x")), mk(fmt.Sprintf("yours%d", i))}}})
				feats = append(feats, "late-augment-collision")
			} else {
				// other adds a container, m augments that container
				other.Augments = append(other.Augments, &ymodel.Augment{Path: otherPath, Body: ymodel.Body{Nodes: []*ymodel.Node{mk(fmt.Sprintf("latec%d", i), mk("x"))}}})
				step := ""
				if set.Owner(other) == set.Owner(m) {
					step = m.Prefix
				} else {
					for _, im := range m.Imports {
						if o := set.Owner(other); o != nil && im.Module == o.Name {
							step = im.Prefix
						}
					}
				}
				if step != "" {
					m.Augments = append(m.Augments, &ymodel.Augment{Path: tg.Path + "/" + step + ":" + fmt.Sprintf("latec%d", i), Body: ymodel.Body{Nodes: []*ymodel.Node{mk(fmt.Sprintf("dep%d", i))}}})
				}
				feats = append(feats, "late-augment-chain")
			}
		case 0: // unknown types in a module
			m.Nodes = append(m.Nodes, &ymodel.Node{Kind: ymodel.KLeaf, Name: fmt.Sprintf("badl%d", i), Type: &ymodel.TypeRef{Name: "nosuch"}})
			m.Typedefs = append(m.Typedefs, &ymodel.Typedef{Name: fmt.Sprintf("badt%d", i), Type: &ymodel.TypeRef{Name: "uint8", Range: "5..1"}})
			feats = append(feats, "type-faults")
		case 1: // two augments add the same name (two modules where possible)
			var cands []schema.Target
			for _, tg := range schema.Targets(set, trees, m) {
				if tg.Node.Kind == ymodel.KContainer || tg.Node.Kind == ymodel.KList {
					cands = append(cands, tg)
				}
			}
			if len(cands) == 0 {
				continue
			}
			tg := cands[rapid.IntRange(0, len(cands)-1).Draw(t, "collision-target")]
			leaf := func() *ymodel.Node {
				return &ymodel.Node{Kind: ymodel.KLeaf, Name: "clash", Type: &ymodel.TypeRef{Name: "string"}}
			}
			m.Augments = append(m.Augments, &ymodel.Augment{Path: tg.Path, Body: ymodel.Body{Nodes: []*ymodel.Node{leaf()}}})
			other, otherPath := m, tg.Path
			for _, x := range set.Modules {
				if x == m {
					continue
				}
				for _, y := range schema.Targets(set, trees, x) {
					if y.Node == tg.Node {
						other, otherPath = x, y.Path
					}
				}
			}
			other.Augments = append(other.Augments, &ymodel.Augment{Path: otherPath, Body: ymodel.Body{Nodes: []*ymodel.Node{leaf()}}})
			feats = append(feats, "augment-collision")
		case 2: // missing augment target
			m.Augments = append(m.Augments, &ymodel.Augment{Path: "/" + m.Prefix + ":nosuch", Body: ymodel.Body{Nodes: []*ymodel.Node{{Kind: ymodel.KLeaf, Name: fmt.Sprintf("orphan%d", i), Type: &ymodel.TypeRef{Name: "string"}}}}})
			feats = append(feats, "augment-missing-target")
		default: // unknown grouping
			m.Nodes = append(m.Nodes, &ymodel.Node{Kind: ymodel.KUses, Name: "nosuchgrouping"})
			feats = append(feats, "unknown-grouping")
		}
	}
	return feats
}

// lateTarget: the target's path passes through (or ends at) an implicit case.
func lateTarget(tg schema.Target, set *ymodel.Set, trees map[string]*yref.Tree, from *ymodel.Module) bool {
	for _, x := range schema.Targets(set, trees, from) {
		if x.Node == tg.Node {
			return false
		}
	}
	return true
}

// genRevisions: modules of one name with and without revisions plus importers (the bare name and undated
// imports must bind to the same module in every load order).
func genRevisions(t *rapid.T) Case {
	c := Case{Runs: 3, Features: []string{"same-name-revisions"}}
	dates := []string{"", "2019-05-05", "2020-01-01", "2021-12-31"}
	seen := map[string]bool{}
	n := rapid.IntRange(2, 3).Draw(t, "versions")
	kinds := []string{"string", "int32", "boolean", "uint8"}
	for i := 0; i < n; i++ {
		d := rapid.SampledFrom(dates).Draw(t, "date")
		if seen[d] {
			continue
		}
		seen[d] = true
		rev, name := "", "foo.yang"
		if d != "" {
			rev = " revision " + d + ";"
			name = "foo@" + d + ".yang"
		}
		// each version defines t differently and has its own leaf, so a different binding shows
		// every version derives an identity of the same name from a base in a third module
		c.Sources = append(c.Sources, ymodel.Source{Name: name, Text: fmt.Sprintf("module foo { namespace \"urn:foo\"; prefix f; import idbase { prefix b; }%s typedef t { type %s; } container c%d { leaf own { type t; } } identity same { base b:x; } identity own%d { base same; } }", rev, kinds[i], i, i)})
	}
	c.Sources = append(c.Sources, ymodel.Source{Name: "idbase.yang", Text: "module idbase { namespace \"urn:idbase\"; prefix b; identity x; leaf r { type identityref { base x; } } }"})
	c.CLI = rapid.IntRange(0, 5).Draw(t, "cli") == 0
	c.Sources = append(c.Sources, ymodel.Source{Name: "user.yang", Text: "module user { namespace \"urn:user\"; prefix u; import foo { prefix f; } leaf l { type f:t; } }"})
	if rapid.Bool().Draw(t, "dated-importer") {
		for d := range seen {
			if d != "" {
				c.Sources = append(c.Sources, ymodel.Source{Name: "user2.yang", Text: fmt.Sprintf("module user2 { namespace \"urn:user2\"; prefix u; import foo { prefix f; revision-date %s; } leaf l { type f:t; } }", d)})
				break
			}
		}
	}
	if rapid.Bool().Draw(t, "importer-in-two-revisions") {
		// two revisions of one importing module, one importing by date and one not
		var dated string
		for _, d := range dates[1:] {
			if seen[d] {
				dated = d
				break
			}
		}
		if dated != "" {
			c.Sources = append(c.Sources,
				ymodel.Source{Name: "userr@2019-05-05.yang", Text: fmt.Sprintf("module userr { namespace \"urn:userr\"; prefix u; import foo { prefix f; revision-date %s; } revision 2019-05-05; leaf l { type f:t; } }", dated)},
				ymodel.Source{Name: "userr@2021-12-31.yang", Text: "module userr { namespace \"urn:userr\"; prefix u; import foo { prefix f; } revision 2021-12-31; leaf l { type f:t; } }"})
		}
	}
	// deterministic source order for the dated importer choice
	sort.Slice(c.Sources, func(i, j int) bool { return c.Sources[i].Name < c.Sources[j].Name })
	nn := len(c.Sources)
	idx := make([]int, nn)
	for i := range idx {
		idx[i] = i
	}
	var rec func(k int)
	rec = func(k int) {
		if k == nn {
			c.Perms = append(c.Perms, append([]int(nil), idx...))
			return
		}
		for i := k; i < nn; i++ {
			idx[k], idx[i] = idx[i], idx[k]
			rec(k + 1)
			idx[k], idx[i] = idx[i], idx[k]
		}
	}
	if nn <= 4 {
		rec(0)
	} else {
		c.Perms = append(c.Perms, append([]int(nil), idx...))
		for i := 0; i < 11; i++ {
			c.Perms = append(c.Perms, schema.Order(t, nn))
		}
	}
	return c
}

// genHostile: wrong, cyclic, contradictory and incomplete texts (the generators of C01). Whatever comes back -
// mostly errors - must come back the same in every run and load order.
func genHostile(t *rapid.T) Case {
	hostile.MaxChain = 300
	var h hostile.Case
	if rapid.IntRange(0, 5).Draw(t, "several-faults-at-once") == 0 {
		// the templates with several faults in one set of texts: which of them is reported may not vary
		h = hostile.TemplateFrom(t, []string{"header-mix", "error-budget", "duplicates", "absent", "bad-augment", "bad-deviation"})
	} else {
		h = hostile.Gen(t)
	}
	c := Case{Runs: 3, Lenient: true, Ignore: h.IgnoreNotSupp, IgnoreCirc: h.IgnoreCirc, Features: []string{"hostile/" + h.Gen}}
	seen := map[string]bool{}
	for _, f := range h.Files {
		if seen[f.Name] {
			continue // one text per file name: positions in errors name the file
		}
		seen[f.Name] = true
		c.Sources = append(c.Sources, ymodel.Source{Name: f.Name, Text: f.Text})
	}
	n := len(c.Sources)
	idx := make([]int, n)
	for i := range idx {
		idx[i] = i
	}
	c.Perms = append(c.Perms, idx)
	for i := 0; i < 4 && n > 1; i++ {
		c.Perms = append(c.Perms, schema.Order(t, n))
	}
	return c
}

// genMirror: 2-3 modules of one shape (names of equal length, the same layout) whose typedefs, groupings or
// identities form a cycle through the imports, so that the statements involved stand at the same line and column
// of their texts; the texts are handed over under one source name (or, as a control, under their own).
func genMirror(t *rapid.T) Case {
	n := rapid.IntRange(2, 3).Draw(t, "mirror-modules")
	kind := rapid.SampledFrom([]string{"typedef", "grouping", "identity", "typedef-union", "mixed"}).Draw(t, "mirror-kind")
	oneName := rapid.IntRange(0, 3).Draw(t, "mirror-one-name") != 0
	c := Case{Runs: 6, Lenient: true, Features: []string{"mirror/" + kind}}
	if oneName {
		c.Features = append(c.Features, "one-source-name")
	}
	for i := 0; i < n; i++ {
		me, next := fmt.Sprintf("m%c", 'a'+i), fmt.Sprintf("m%c", 'a'+(i+1)%n)
		x, y := me[1:], next[1:] // what a module defines carries its letter: the messages differ, the layout does not
		var body string
		switch kind {
		case "typedef":
			body = fmt.Sprintf("  typedef t%s { type %s:t%s; }\n  leaf l { type t%s; }\n", x, next, y, x)
		case "typedef-union":
			body = fmt.Sprintf("  typedef t%s { type union { type string; type %s:t%s; } }\n  leaf l { type t%s; }\n", x, next, y, x)
		case "grouping":
			body = fmt.Sprintf("  grouping g%s { leaf x { type string; } uses %s:g%s; }\n  container c { uses g%s; }\n", x, next, y, x)
		case "identity":
			body = fmt.Sprintf("  identity i%s { base %s:i%s; }\n  leaf l { type identityref { base i%s; } }\n", x, next, y, x)
		default:
			body = fmt.Sprintf("  typedef t%s { type %s:t%s; }\n  grouping g%s { uses %s:g%s; }\n  container c { uses g%s; leaf l { type t%s; } }\n  leaf u { type %s:nosuch; }\n", x, next, y, x, next, y, x, x, next)
		}
		name := me + ".yang"
		if oneName {
			name = "input.yang"
		}
		c.Sources = append(c.Sources, ymodel.Source{Name: name, Text: fmt.Sprintf("module %s {\n  namespace \"urn:%s\";\n  prefix %s;\n  import %s { prefix %s; }\n%s}\n", me, me, me, next, next, body)})
	}
	idx := make([]int, n)
	for i := range idx {
		idx[i] = i
	}
	var rec func(k int)
	rec = func(k int) {
		if k == n {
			c.Perms = append(c.Perms, append([]int(nil), idx...))
			return
		}
		for i := k; i < n; i++ {
			idx[k], idx[i] = idx[i], idx[k]
			rec(k + 1)
			idx[k], idx[i] = idx[i], idx[k]
		}
	}
	rec(0)
	return c
}

// genTwins: a module and a submodule (of another module) that carry the same name - goyang files them in separate
// registries - and, in both, identities, typedefs and groupings of equal names; optionally both carry the same
// revision date too, so that name@revision ties as well. Whatever orders things by the name of the text that holds
// them meets a tie here. The outcome must be the same in every run and load order.
func genTwins(t *rapid.T) Case {
	c := Case{Runs: 6, Features: []string{"module-and-submodule-of-one-name"}}
	rev := ""
	if rapid.Bool().Draw(t, "twins-same-revision") {
		rev = "  revision 2020-02-02;\n"
		c.Features = append(c.Features, "same-revision")
	}
	k := rapid.IntRange(1, 3).Draw(t, "twin-identities")
	ids := func(tag string) string {
		var b strings.Builder
		for i := 0; i < k; i++ {
			fmt.Fprintf(&b, "  identity same%d { base b:root; }\n", i)
		}
		fmt.Fprintf(&b, "  identity only-%s { base b:root; }\n  identity second-%s { base same0; }\n", tag, tag)
		return b.String()
	}
	c.Sources = append(c.Sources,
		ymodel.Source{Name: "base.yang", Text: "module base {\n  namespace \"urn:base\";\n  prefix b;\n  identity root;\n  leaf ref { type identityref { base root; } }\n}\n"},
		ymodel.Source{Name: "x.yang", Text: "module x {\n  namespace \"urn:x\";\n  prefix x;\n  import base { prefix b; }\n" + rev + ids("module") + "  typedef t { type string; units \"of-module\"; }\n  grouping g { leaf gm { type t; } }\n  container cx { uses g; }\n}\n"},
		ymodel.Source{Name: "y.yang", Text: "module y {\n  namespace \"urn:y\";\n  prefix y;\n  import base { prefix b; }\n  include x;\n  identity ytop { base b:root; }\n  container cy { uses g; leaf viat { type t; } }\n}\n"},
		ymodel.Source{Name: rapid.SampledFrom([]string{"x-sub.yang", "x.yang"}).Draw(t, "twin-file-name"), Text: "submodule x {\n  belongs-to y { prefix y; }\n  import base { prefix b; }\n" + rev + ids("submodule") + "  typedef t { type int8; units \"of-submodule\"; }\n  grouping g { leaf gs { type t; } }\n}\n"},
	)
	if rapid.Bool().Draw(t, "twin-user") {
		c.Sources = append(c.Sources, ymodel.Source{Name: "user.yang", Text: "module user {\n  namespace \"urn:user\";\n  prefix u;\n  import base { prefix b; }\n  import x { prefix x; }\n  import y { prefix y; }\n  identity mine { base x:same0; }\n  identity theirs { base y:same0; }\n  leaf a { type x:t; }\n  leaf b { type y:t; }\n  container ca { uses x:g; }\n  container cb { uses y:g; }\n}\n"})
	}
	n := len(c.Sources)
	idx := make([]int, n)
	for i := range idx {
		idx[i] = i
	}
	c.Perms = append(c.Perms, append([]int(nil), idx...))
	for i := 0; i < 5; i++ {
		c.Perms = append(c.Perms, schema.Order(t, n))
	}
	return c
}

// genLate: augments that can only be applied after the implicit cases were inserted (their paths run through the
// implicit case of a shorthand choice member), written in 2-3 modules, colliding with or building on one another.
// Whether they succeed is not the question here; the outcome must be the same in every run and load order.
func genLate(t *rapid.T) Case {
	c := Case{Runs: 6, Features: []string{"late-augments"}}
	c.Sources = append(c.Sources, ymodel.Source{Name: "t.yang", Text: "module t {\n namespace \"urn:t\";\n prefix t;\n container c {\n  choice ch {\n   container x { leaf xl { type string; } }\n   leaf y { type string; }\n   list z { key k; leaf k { type string; } }\n  }\n }\n}\n"})
	n := rapid.IntRange(2, 3).Draw(t, "late-modules")
	targets := []string{"/t:c/t:ch/t:x/t:x", "/t:c/t:ch/t:y", "/t:c/t:ch/t:z/t:z"}
	for i := 0; i < n; i++ {
		me := fmt.Sprintf("a%d", i+1)
		var b strings.Builder
		fmt.Fprintf(&b, "module %s {\n namespace \"urn:%s\";\n prefix %s;\n import t { prefix t; }\n", me, me, me)
		for j := 1; j <= n; j++ {
			if j != i+1 {
				fmt.Fprintf(&b, " import a%d { prefix a%d; }\n", j, j)
			}
		}
		k := rapid.IntRange(1, 3).Draw(t, "late-augments")
		for j := 0; j < k; j++ {
			tg := rapid.SampledFrom(targets).Draw(t, "late-target")
			switch rapid.IntRange(0, 3).Draw(t, "late-kind") {
			case 0: // a name every module may add: collisions
				fmt.Fprintf(&b, " augment \"%s\" { leaf shared { type string; } }\n", tg)
			case 1: // a container of one's own, for others to build on
				fmt.Fprintf(&b, " augment \"%s\" { container box%d { leaf in { type string; } } }\n", tg, i+1)
			case 2: // builds on another module's container
				o := rapid.IntRange(1, n).Draw(t, "late-builds-on")
				fmt.Fprintf(&b, " augment \"%s/a%d:box%d\" { leaf on%d-%d { type string; } }\n", tg, o, o, i+1, j)
			default:
				fmt.Fprintf(&b, " augment \"%s\" { leaf own%d-%d { type string; } choice inner%d-%d { leaf s%d-%d { type string; } } }\n", tg, i+1, j, i+1, j, i+1, j)
			}
		}
		b.WriteString("}\n")
		c.Sources = append(c.Sources, ymodel.Source{Name: me + ".yang", Text: b.String()})
	}
	nn := len(c.Sources)
	idx := make([]int, nn)
	for i := range idx {
		idx[i] = i
	}
	c.Perms = append(c.Perms, append([]int(nil), idx...))
	for i := 0; i < 5; i++ {
		c.Perms = append(c.Perms, schema.Order(t, nn))
	}
	return c
}

func gen(t *rapid.T) Case {
	if rapid.IntRange(0, 7).Draw(t, "revision-scenario") == 0 {
		return genRevisions(t)
	}
	if rapid.IntRange(0, 19).Draw(t, "late-scenario") == 0 {
		return genLate(t)
	}
	if rapid.IntRange(0, 29).Draw(t, "twins-scenario") == 0 {
		return genTwins(t)
	}
	if rapid.IntRange(0, 19).Draw(t, "mirror-scenario") == 0 {
		return genMirror(t)
	}
	if rapid.IntRange(0, 4).Draw(t, "hostile-scenario") == 0 {
		return genHostile(t)
	}
	o := ymodel.DefaultOpts()
	o.Budget = 18
	o.Posix = true  // posix-pattern statements of openconfig-extensions in string types
	o.Extras = true // must, when, status, reference, presence and extension statements on nodes, uses and augments
	schema.AugmentExtras = true
	set, _ := schema.Generate(t, o)
	var feats []string
	if l := schema.AddAugments(t, set, 0, 3); len(l) > 0 {
		feats = append(feats, "augments")
	}
	if rapid.IntRange(0, 5).Draw(t, "augment-chain") == 0 {
		schema.AddAugmentChain(t, set)
		feats = append(feats, "augment-chain")
	}
	schema.AddIdentities(t, set, 6)
	if rapid.Bool().Draw(t, "ties") && addTies(t, set) {
		feats = append(feats, "identity-name-ties")
	}
	c := Case{Runs: 4}
	if rapid.IntRange(0, 2).Draw(t, "deviations") == 0 {
		if l := schema.AddDeviations(t, set, schema.DevOpts{Modules: rapid.IntRange(1, 2).Draw(t, "dev-modules"), Max: 4, NotSupported: true, Operations: true}); len(l) > 0 {
			feats = append(feats, "deviations")
			if l["deviation/several-deviates"] > 0 {
				feats = append(feats, "several-deviates")
			}
		}
		c.Ignore = rapid.IntRange(0, 3).Draw(t, "ignore") == 0
	}
	if rapid.IntRange(0, 2).Draw(t, "faults") == 0 {
		feats = append(feats, plantFaults(t, set)...)
	}
	// dedupe features
	seen := map[string]bool{}
	for _, f := range feats {
		if !seen[f] {
			seen[f] = true
			c.Features = append(c.Features, f)
		}
	}
	c.Sources = set.Texts()
	n := len(c.Sources)
	idx := make([]int, n)
	for i := range idx {
		idx[i] = i
	}
	c.Perms = append(c.Perms, append([]int(nil), idx...))
	if n <= 3 {
		var rec func(k int)
		rec = func(k int) {
			if k == n {
				p := append([]int(nil), idx...)
				if fmt.Sprint(p) != fmt.Sprint(c.Perms[0]) {
					c.Perms = append(c.Perms, p)
				}
				return
			}
			for i := k; i < n; i++ {
				idx[k], idx[i] = idx[i], idx[k]
				rec(k + 1)
				idx[k], idx[i] = idx[i], idx[k]
			}
		}
		rec(0)
	} else {
		for i := 0; i < 7; i++ {
			c.Perms = append(c.Perms, schema.Order(t, n))
		}
	}
	c.CLI = rapid.IntRange(0, 11).Draw(t, "cli") == 0
	c.StoreUses = !c.CLI && rapid.IntRange(0, 3).Draw(t, "store-uses") == 0
	if !c.CLI && rapid.IntRange(0, 7).Draw(t, "one-source-name") == 0 {
		// the caller hands every text over under one name (Modules.Parse takes any string): positions
		// in different texts then compare equal, and nothing but the texts themselves may decide an order
		name := rapid.SampledFrom([]string{"input.yang", ""}).Draw(t, "the-one-name")
		for i := range c.Sources {
			c.Sources[i].Name = name
		}
		c.Features = append(c.Features, "one-source-name")
		if name == "" {
			c.Features = append(c.Features, "no-source-name")
		}
	}
	return c
}

func TestCheck(t *testing.T) {
	ev.Run(t, ev.Spec[Case]{
		ID:    "C05",
		Level: "exploration",
		Rule: "module sets from the schema model biased toward ties and conflicts: modules of one name with and without revisions plus dated and undated importers (an eighth of the cases), identities of equal name in different modules under one base, deviations with several deviate statements, two deviating modules, chained augments, and in a third of the cases 1-3 planted faults spread over the files (unknown types and bad ranges, two augments of one name from two modules, missing augment targets, unknown groupings, typedef and grouping cycles, late augments that collide or chain, several unresolved identity bases behind one prefix); a twentieth of the cases are mirror modules (2-3 modules of one layout whose typedefs, groupings or identities form a cycle through the imports, handed over under one source name or under their own), an eighth of the remaining cases without the command hand every text over under one source name; every load permutation for up to 3 sources (6), model order plus 7 random orders beyond; each order is run 4 times in fresh module sets inside one process (the Go runtime re-randomises map iteration on every range). One twelfth of the cases additionally write the sources to a temporary directory and run the goyang command built from the working tree 6 times per format (tree, types) with two argument orders. " +
			"Oracle: all runs give the identical result: load errors per source, the Process() error strings in order, and the complete canonical dump (all module and submodule trees with types, defaults, attributes, identity value lists in order); every error list is ordered by file, line, column where entries carry a position and holds no string twice; the command's exit status, stdout and stderr are byte-identical. " +
			"Non-trivial = at least 2 sources and at least one tie/conflict/fault feature; distinct by case",
		Assumptions: []string{
			"order dependence is only observed if the runtime iterates a map differently in one of the runs: with Go 1.23 bucket maps a two-entry map is reversed with probability about 1/8 per range, so one tie stays unseen over the 24-32 runs of a case with probability about 2-4%; the same features recur in hundreds of cases",
		},
		Check: check,
		Gen:   gen,
		Risky: true,
	})
}
