// C20 — indented writing is chunk-independent and accounts bytes truthfully.
package c20

import (
	"bytes"
	"errors"
	"fmt"
	"hash/fnv"
	"sort"
	"strconv"
	"strings"
	"testing"

	"github.com/openconfig/goyang/pkg/indent"
	"pgregory.net/rapid"

	"verif/lib/ev"
)

// Case: a prefix, the successive Write arguments and the total number of
// bytes the underlying writer accepts before it returns an error (-1: never).
type Case struct {
	Prefix []byte   `json:"prefix"`
	Chunks [][]byte `json:"chunks"`
	Limit  int      `json:"limit"`
	// Stack: the underlying writer of the indenting writer is itself an indenting writer (prefix Inner) over the
	// sink; ToInner[i] says that chunk i is written to the inner writer directly, not through the outer one
	// (as nested printers do: each level writes through its own writer).
	Stack   bool   `json:"stacked,omitempty"`
	Inner   []byte `json:"inner_prefix,omitempty"`
	ToInner []bool `json:"to_inner,omitempty"`
}

type limW struct {
	left int // -1 = unlimited
	got  []byte
}

var errShort = errors.New("short write")

func (w *limW) Write(b []byte) (int, error) {
	if w.left < 0 || len(b) <= w.left {
		if w.left >= 0 {
			w.left -= len(b)
		}
		w.got = append(w.got, b...)
		return len(b), nil
	}
	n := w.left
	w.got = append(w.got, b[:n]...)
	w.left = 0
	return n, errShort
}

// refIndent is the reference: prefix at the start of every line, nothing
// after the final line break. prov[i] is -1 for a prefix byte, else the index
// of the caller byte that output byte i is.
func refIndent(prefix, text []byte) (out []byte, prov []int) {
	atLineStart := true
	for i := 0; i < len(text); i++ {
		if atLineStart {
			for j := 0; j < len(prefix); j++ {
				out = append(out, prefix[j])
				prov = append(prov, -1)
			}
			atLineStart = false
		}
		out = append(out, text[i])
		prov = append(prov, i)
		if text[i] == '\n' {
			atLineStart = true
		}
	}
	return
}

// checkStack: two indenting writers, one on top of the other. What the outer writer hands to its underlying writer
// must be the one-shot rendering of the text written to it, in any division into Write calls, whatever kind of
// writer that underlying writer is; here it is an indenting writer that also receives text of its own in between.
// Model: the outer text O is rendered with the outer prefix, each outer Write contributes the bytes of that
// rendering that belong to its argument (a prefix goes with the first byte of its line); these pieces and the
// direct writes form, in call order, the inner text I; the sink must hold the rendering of I with the inner prefix.
func checkStack(c Case) (o ev.Outcome) {
	o.Sample = map[string]any{"stacked": true, "outer-prefix": string(c.Prefix), "inner-prefix": string(c.Inner), "chunks": quoteAll(c.Chunks), "to-inner": c.ToInner}
	o.Key = fmt.Sprintf("stack|%q|%q|%q|%v", c.Prefix, c.Inner, c.Chunks, c.ToInner)
	o.Class("stacked-writers")
	var outer []byte
	for i, ch := range c.Chunks {
		if !(i < len(c.ToInner) && c.ToInner[i]) {
			outer = append(outer, ch...)
		}
	}
	ro, prov := refIndent(c.Prefix, outer)
	// piece k of the outer rendering: output bytes whose caller byte lies in [from, to); a prefix byte goes with
	// the caller byte that follows it
	owner := make([]int, len(ro))
	next := len(outer)
	for i := len(ro) - 1; i >= 0; i-- {
		if prov[i] >= 0 {
			next = prov[i]
		}
		owner[i] = next
	}
	var inner []byte
	pos, at := 0, 0
	both, mid := false, false
	for i, ch := range c.Chunks {
		if i < len(c.ToInner) && c.ToInner[i] {
			if len(inner) > 0 && inner[len(inner)-1] != '\n' && len(ch) > 0 {
				mid = true
			}
			inner = append(inner, ch...)
			both = true
			continue
		}
		to := pos + len(ch)
		for at < len(ro) && owner[at] < to {
			inner = append(inner, ro[at])
			at++
		}
		pos = to
	}
	want, _ := refIndent(c.Inner, inner)
	o.NonTrivial = len(c.Prefix) > 0 && len(c.Inner) > 0 && both && bytes.IndexByte(outer, '\n') >= 0
	if mid {
		o.Class("stacked-writers/inner-continues-an-unfinished-line")
	}
	ev.Guard(&o, "stacked writers", func() {
		var sink bytes.Buffer
		in := indent.NewWriter(&sink, string(c.Inner))
		out := indent.NewWriter(in, string(c.Prefix))
		for i, ch := range c.Chunks {
			w := out
			if i < len(c.ToInner) && c.ToInner[i] {
				w = in
			}
			n, err := w.Write(ch)
			if err != nil || n != len(ch) {
				o.Violate("successful-write-reports-full-length", "C20/stack/count", "Write #%d of %d bytes returned (%d, %v) on a sink that accepts everything", i, len(ch), n, err)
				return
			}
		}
		if !bytes.Equal(sink.Bytes(), want) {
			o.Violate("chunk-independent-output", "C20/stack/bytes", "outer prefix %q over inner prefix %q: sink holds %q, the rendering is %q", c.Prefix, c.Inner, sink.Bytes(), want)
		}
	})
	return o
}

func check(c Case) (o ev.Outcome) {
	if c.Stack {
		return checkStack(c)
	}
	var text []byte
	for _, ch := range c.Chunks {
		text = append(text, ch...)
	}
	ref, prov := refIndent(c.Prefix, text)
	o.Sample = map[string]any{"prefix": string(c.Prefix), "chunks": quoteAll(c.Chunks), "limit": c.Limit}
	o.Key = fmt.Sprintf("%q|%q|%d", c.Prefix, c.Chunks, c.Limit)
	if len(text) > 400 {
		// long texts: the sample names the lengths and the start of the text only
		var lens []int
		big := false
		for _, ch := range c.Chunks {
			lens = append(lens, len(ch))
			if len(ch) > 4096 {
				big = true
			}
		}
		o.Sample = map[string]any{"prefix": string(c.Prefix), "text-starts-with": strconv.Quote(string(text[:60])), "text-length": len(text), "write-lengths": lens, "limit": c.Limit}
		h := fnv.New64a()
		h.Write(text)
		o.Key = fmt.Sprintf("%q|long:%x|%v|%d", c.Prefix, h.Sum64(), lens, c.Limit)
		o.Class("long-text")
		if big {
			o.Class("write-argument-over-4096-bytes")
		}
	}
	hasLF := strings.IndexByte(string(text), '\n') >= 0
	fault := c.Limit >= 0 && c.Limit < len(ref)
	o.NonTrivial = len(c.Prefix) > 0 && hasLF && (len(c.Chunks) >= 2 || fault)
	if fault {
		o.Class("fault")
	} else {
		o.Class("no-fault")
	}
	if len(c.Chunks) >= 2 {
		o.Class("multi-write")
	}

	ev.Guard(&o, "indent", func() {
		// one-shot functions agree with the reference
		if s := indent.String(string(c.Prefix), string(text)); s != string(ref) {
			o.Violate("one-shot", "C20/one-shot/String", "indent.String(%q,%q)=%q, reference %q", c.Prefix, text, s, ref)
		}
		if b := indent.Bytes(c.Prefix, append([]byte(nil), text...)); string(b) != string(ref) {
			o.Violate("one-shot", "C20/one-shot/Bytes", "indent.Bytes(%q,%q)=%q, reference %q", c.Prefix, text, b, ref)
		}
		w := &limW{left: c.Limit}
		iw := indent.NewWriter(w, string(c.Prefix))
		consumed := 0
		failed := false
		for ci, ch := range c.Chunks {
			before := len(w.got)
			arg := append([]byte(nil), ch...)
			n, err := iw.Write(arg)
			if string(arg) != string(ch) {
				o.Violate("argument-unmodified", "C20/arg-modified", "Write modified its argument: %q -> %q", ch, arg)
			}
			if err == nil {
				if n != len(ch) {
					o.Violate("ok-count", "C20/ok-count", "Write #%d of %q succeeded but returned %d", ci, ch, n)
				}
				consumed += len(ch)
				continue
			}
			failed = true
			want := 0
			for p := before; p < len(w.got) && p < len(prov); p++ {
				if prov[p] >= consumed {
					want++
				}
			}
			if n != want {
				where := "fresh-line"
				if consumed > 0 && text[consumed-1] != '\n' {
					where = "continued-line"
				}
				dir := "under"
				if n > want {
					dir = "over"
				}
				rng := ""
				if n < 0 {
					rng = "/negative"
				} else if n > len(ch) {
					rng = "/beyond-argument"
				}
				o.Violate("fault-count", "C20/fault-count/"+where+"/"+dir+rng,
					"prefix %q, %d caller bytes written before, Write(%q) with room for %d more output bytes returned n=%d, but %d of its bytes reached the writer (received %q)",
					c.Prefix, consumed, ch, c.Limit-before, n, want, w.got)
			}
			break // behaviour after the first error is outside the claim
		}
		lim := len(ref)
		if fault {
			lim = c.Limit
		}
		if fault && !failed {
			o.Violate("fault-reported", "C20/fault-not-reported", "underlying writer stopped after %d of %d bytes but no Write returned an error", c.Limit, len(ref))
		}
		if !fault && failed {
			o.Violate("fault-reported", "C20/spurious-error", "a Write failed although the underlying writer never did")
		}
		if len(w.got) > len(ref) || string(w.got) != string(ref[:len(w.got)]) {
			o.Violate("bytes", "C20/bytes/not-prefix-of-reference", "prefix %q chunks %q limit %d: received %q, reference %q", c.Prefix, c.Chunks, c.Limit, w.got, ref)
		} else if len(w.got) != lim {
			o.Violate("bytes", "C20/bytes/length", "prefix %q chunks %q limit %d: received %d bytes %q, expected the first %d of %q", c.Prefix, c.Chunks, c.Limit, len(w.got), w.got, lim, ref)
		}
	})
	return o
}

func quoteAll(bs [][]byte) []string {
	out := make([]string, len(bs))
	for i, b := range bs {
		out[i] = fmt.Sprintf("%q", b)
	}
	return out
}

var enumPrefixes = []string{">", "ab", "a\n"}

func enumerate(tier string, shard, shards int, emit func(Case) bool) bool {
	maxLen := 5
	if tier == "thorough" {
		maxLen = 8
	}
	idx := 0
	for _, prefix := range enumPrefixes {
		for n := 0; n <= maxLen; n++ {
			for bits := 0; bits < 1<<n; bits++ {
				idx++
				if idx%shards != shard {
					continue
				}
				text := make([]byte, n)
				for i := range text {
					text[i] = 'a'
					if bits>>i&1 == 1 {
						text[i] = '\n'
					}
				}
				ref, _ := refIndent([]byte(prefix), text)
				cuts := 1
				if n > 1 {
					cuts = 1 << (n - 1)
				}
				for cm := 0; cm < cuts; cm++ {
					var chunks [][]byte
					start := 0
					for i := 1; i < n; i++ {
						if cm>>(i-1)&1 == 1 {
							chunks = append(chunks, text[start:i])
							start = i
						}
					}
					if n > 0 {
						chunks = append(chunks, text[start:])
					}
					for k := -1; k < len(ref); k++ {
						if !emit(Case{Prefix: []byte(prefix), Chunks: chunks, Limit: k}) {
							return false
						}
					}
				}
			}
		}
	}
	return true
}

func gen(t *rapid.T) Case {
	prefix := rapid.OneOf(
		rapid.SampledFrom([]string{">", "  ", "\t", "ab", "a\n", "\n", "", "é", "-- "}),
		rapid.StringOfN(rapid.RuneFrom([]rune{'a', ' ', '\n', 'é', '>'}), 0, 4, -1),
	).Draw(t, "prefix")
	text := []byte(rapid.StringOfN(rapid.RuneFrom([]rune{'a', 'b', ' ', '\n', '\n', 'é', '世', '\r', '\t'}), 0, 200, -1).Draw(t, "text"))
	// the text is bytes, not characters: Latin-1, cut multi-byte sequences, NUL
	if rapid.IntRange(0, 2).Draw(t, "raw-bytes") == 0 {
		k := rapid.IntRange(1, 4).Draw(t, "raw-count")
		for i := 0; i < k; i++ {
			at := rapid.IntRange(0, len(text)).Draw(t, "raw-at")
			b := rapid.SampledFrom([]byte{0xe9, 0xff, 0xc3, 0x80, 0x00, 0xe4}).Draw(t, "raw-byte")
			text = append(text[:at:at], append([]byte{b}, text[at:]...)...)
		}
	}
	if rapid.IntRange(0, 7).Draw(t, "raw-prefix") == 0 {
		prefix += string([]byte{rapid.SampledFrom([]byte{0xe9, 0xff, 0xc3}).Draw(t, "raw-prefix-byte")})
	}
	// an eighth of the cases: a long text (the short one repeated up to a length at or beside a power of two, up
	// to 64 KiB and a little more) handed over in one to three large Write calls, so that single arguments run
	// to thousands of bytes; the stop point anywhere, or right at or beside a multiple of a power of two
	if len(text) > 0 && rapid.IntRange(0, 7).Draw(t, "long-text") == 0 {
		size := rapid.SampledFrom([]int{256, 512, 1024, 2048, 4096, 8192, 12288, 16384, 32768, 65536}).Draw(t, "long-size") + rapid.IntRange(-2, 2).Draw(t, "long-size-off")
		long := make([]byte, 0, size)
		for len(long) < size {
			long = append(long, text...)
		}
		long = long[:size]
		var chunks [][]byte
		cuts := []int{0, size}
		for i := rapid.IntRange(0, 2).Draw(t, "long-cuts"); i > 0; i-- {
			cuts = append(cuts, rapid.IntRange(0, size).Draw(t, "long-cut"))
		}
		sort.Ints(cuts)
		for i := 1; i < len(cuts); i++ {
			chunks = append(chunks, long[cuts[i-1]:cuts[i]])
		}
		ref, _ := refIndent([]byte(prefix), long)
		limit := -1
		switch rapid.IntRange(0, 3).Draw(t, "long-faulty") {
		case 1:
			limit = rapid.IntRange(0, len(ref)).Draw(t, "limit")
		case 2, 3:
			limit = rapid.SampledFrom([]int{256, 512, 1024, 4096, 8192}).Draw(t, "limit-unit")*rapid.IntRange(1, 8).Draw(t, "limit-multiple") + rapid.IntRange(-3, 3).Draw(t, "limit-off")
			if limit > len(ref) {
				limit = len(ref)
			}
		}
		return Case{Prefix: []byte(prefix), Chunks: chunks, Limit: limit}
	}
	stacked := rapid.IntRange(0, 7).Draw(t, "stacked-writers") == 0
	var chunks [][]byte
	pos := 0
	for pos < len(text) {
		n := rapid.IntRange(0, 12).Draw(t, "chunk")
		if n > len(text)-pos {
			n = len(text) - pos
		}
		chunks = append(chunks, text[pos:pos+n])
		pos += n
	}
	if rapid.IntRange(0, 5).Draw(t, "trailingEmpty") == 0 {
		chunks = append(chunks, []byte{})
	}
	if stacked {
		c := Case{Prefix: []byte(prefix), Chunks: chunks, Limit: -1, Stack: true}
		c.Inner = []byte(rapid.SampledFrom([]string{"  ", ">", "// ", "\t", "", "é"}).Draw(t, "inner-prefix"))
		for range chunks {
			c.ToInner = append(c.ToInner, rapid.IntRange(0, 3).Draw(t, "to-inner") == 0)
		}
		return c
	}
	ref, _ := refIndent([]byte(prefix), text)
	limit := -1
	if rapid.IntRange(0, 3).Draw(t, "faulty") > 0 {
		limit = rapid.IntRange(0, len(ref)).Draw(t, "limit")
	}
	return Case{Prefix: []byte(prefix), Chunks: chunks, Limit: limit}
}

func TestCheck(t *testing.T) {
	ev.Run(t, ev.Spec[Case]{
		ID:    "C20",
		Level: "fault_enumeration",
		Rule: "a case is (prefix, successive Write arguments, number of output bytes the underlying writer accepts before failing or -1); " +
			"exhaustive part: every text over {a,LF} up to the length bound x prefixes {'>','ab','a LF'} x every division into non-empty Write calls x every stop point; " +
			"random part: texts up to 200 bytes with multi-byte runes, CR, TAB, and in a third of the cases bytes that are not UTF-8 (Latin-1, cut sequences, NUL; sometimes in the prefix too), chunkings that split runes and include empty calls; an eighth of the cases repeat the text to a length at or beside a power of two between 256 bytes and 64 KiB and hand it over in one to three large Write calls, with stop points anywhere or beside multiples of powers of two; another eighth stack two indenting writers (the underlying writer of the outer one is an indenting writer with a prefix of its own) and send a quarter of the Write calls to the inner writer directly, as nested printers do; " +
			"non-trivial = non-empty prefix, text with a line break, and either two or more Write calls or a fault inside the output; distinct by (prefix, chunks, limit)",
		Assumptions: []string{
			"the underlying writer obeys io.Writer: n < len(p) only together with an error",
			"behaviour after the first failed Write is not judged",
			"oracle: byte-provenance reference of 'prefix at the start of every line' written in the harness, independent of package indent",
		},
		Check:     check,
		Gen:       gen,
		Enumerate: enumerate,
		EnumNote: func(tier string) string {
			if tier == "thorough" {
				return "texts over {a,LF} of length <= 8 x 3 prefixes x all chunkings x all stop points"
			}
			return "texts over {a,LF} of length <= 5 x 3 prefixes x all chunkings x all stop points"
		},
	})
}
