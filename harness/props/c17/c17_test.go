// C17 — schema path lookup finds exactly the node the path names.
package c17

import (
	"fmt"
	"sort"
	"strings"
	"testing"

	"github.com/openconfig/goyang/pkg/yang"
	"pgregory.net/rapid"

	"verif/lib/ev"
	"verif/lib/schema"
	"verif/lib/ymodel"
	"verif/lib/yref"
)

type Case struct {
	Set   *ymodel.Set `json:"set"`
	Order []int       `json:"order,omitempty"`
	// Pick selects, deterministically, which start nodes and negative
	// mutations are tried (all targets are always tried).
	Pick uint32 `json:"pick"`
}

// walkTo follows a slash-separated name path through Dir and RPC.
func walkTo(root *yang.Entry, path string) *yang.Entry {
	e := root
	if path == "" {
		return e
	}
	for _, st := range strings.Split(strings.TrimPrefix(path, "/"), "/") {
		if e == nil {
			return nil
		}
		switch {
		case e.RPC != nil && st == "input":
			e = e.RPC.Input
		case e.RPC != nil && st == "output":
			e = e.RPC.Output
		default:
			e = e.Dir[st]
		}
	}
	return e
}

// namePath strips the prefixes of an absolute prefixed path.
func namePath(p string) string {
	var out []string
	for _, st := range strings.Split(strings.TrimPrefix(p, "/"), "/") {
		if i := strings.IndexByte(st, ':'); i >= 0 {
			st = st[i+1:]
		}
		out = append(out, st)
	}
	return "/" + strings.Join(out, "/")
}

func relPath(from, to string) string {
	f := strings.Split(strings.Trim(from, "/"), "/")
	t := strings.Split(strings.Trim(to, "/"), "/")
	if from == "" || from == "/" {
		f = nil
	}
	i := 0
	for i < len(f) && i < len(t) && f[i] == t[i] {
		i++
	}
	var parts []string
	for j := i; j < len(f); j++ {
		parts = append(parts, "..")
	}
	parts = append(parts, t[i:]...)
	if len(parts) == 0 {
		return "."
	}
	return strings.Join(parts, "/")
}

func nodeClass(x *yref.XNode, path string) string {
	switch {
	case x.Implicit:
		return "implicit-case"
	case strings.Contains(path, "/input") || strings.Contains(path, "/output"):
		return "below-rpc-input-output"
	case x.ViaAug:
		return "grafted-by-augment"
	case x.ViaUses:
		return "copied-by-uses"
	}
	return "plain"
}

func check(c Case) (o ev.Outcome) {
	if c.Set == nil {
		o.OutOfClaim = "empty case"
		return
	}
	srcs := schema.Sources(c.Set, c.Order)
	o.Sample = map[string]any{"order": c.Order, "pick": c.Pick, "sources": srcs}
	r := yref.New(c.Set)
	trees := r.Expand()
	if len(r.Problems) > 0 {
		o.OutOfClaim = "generated set has problems by the reference (harness)"
		return
	}
	var obs *schema.Observed
	if !ev.Guard(&o, "load+process", func() { obs = schema.Load(srcs, nil) }) {
		o.Violations = nil
		o.OutOfClaim = "crash while loading (C01)"
		return
	}
	if !obs.Clean() {
		o.OutOfClaim = "valid set rejected (judged elsewhere): " + schema.ErrClass(obs.ErrText())
		return
	}
	lookups, negatives, relatives := 0, 0, 0
	classes := map[string]bool{}
	fail := func(clause, sig, format string, args ...any) {
		if len(o.Violations) < 2 {
			o.Violate(clause, "C17/"+sig, format, args...)
		}
	}
	ev.Guard(&o, "lookups", func() {
		for _, m := range c.Set.Modules {
			if m.IsSub {
				continue
			}
			root := yang.ToEntry(obs.MS.Modules[m.Name])
			// start nodes: the module root, and nodes written directly in m or one of its submodules
			type start struct {
				e    *yang.Entry
				path string // name path in m's tree ("" = root)
				src  *ymodel.Module
			}
			starts := []start{{root, "", m}}
			paths := yref.Paths(trees[m.Name])
			keys := make([]string, 0, len(paths))
			for k := range paths {
				keys = append(keys, k)
			}
			sort.Strings(keys)
			for i, k := range keys {
				x := paths[k]
				if x.Implicit {
					continue
				}
				// prefixes are those of the (sub)module whose text contains the start node's
				// statement: the module itself, one of its submodules, an augmenting module or
				// the module that defines the grouping the node was copied from
				src := c.Set.Find(x.Src)
				if src == nil {
					continue
				}
				// a deterministic sample of the eligible starts
				if (uint32(i)*2654435761+c.Pick)%4 != 0 {
					continue
				}
				e := walkTo(root, k)
				if e == nil {
					continue // structure differences are C06/C07's business
				}
				starts = append(starts, start{e, k, src})
			}
			for si, st := range starts {
				all := schema.AllNodes(c.Set, trees, st.src)
				for ti, tg := range all {
					troot := yang.ToEntry(obs.MS.Modules[tg.Module])
					np := namePath(tg.Path)
					// unwritten rpc input/output is created by the lookup itself: compare afterwards
					got := st.e.Find(tg.Path)
					want := walkTo(troot, np)
					lookups++
					cls := nodeClass(tg.Node, np)
					classes[cls] = true
					if want == nil {
						continue // tree shape differs from the reference: not this property
					}
					if got != want {
						where := "from-root"
						if st.path != "" {
							where = "from-inner-node"
						}
						other := "same-module"
						if tg.Module != m.Name {
							other = "other-module"
						}
						fail("absolute-lookup", "absolute/"+cls+"/"+where+"/"+other, "from %s%s (text in %s): Find(%q) returned %s, the node is %s", m.Name, st.path, st.src.Name, tg.Path, desc(got), desc(want))
						return
					}
					// relative spelling inside one tree
					if tg.Module == m.Name {
						rel := relPath(st.path, np)
						if rel != "." {
							relatives++
							if g := st.e.Find(rel); g != want {
								fail("relative-lookup", "relative/"+cls, "from %s%s: Find(%q) returned %s, the node is %s", m.Name, st.path, rel, desc(g), desc(want))
								return
							}
						}
					}
					// negative: the same path without its choice and case steps names no child of the node
					// where the choice stands
					if short, ok := schema.WithoutChoiceSteps(trees, tg); ok {
						negatives++
						classes["negative-without-choice-steps"] = true
						if g := st.e.Find(short); g != nil {
							fail("non-existent-step", "negative/choice-and-case-steps-left-out", "from %s%s: Find(%q) returned %s although the steps through the choice are left out", m.Name, st.path, short, desc(g))
							return
						}
					}
					// negative: a step that names no child, taken back by a ".." step, finds nothing either (the
					// walk has nowhere to come back from)
					if (uint32(si*17+ti)*2654435761+c.Pick)%5 == 0 {
						steps := strings.Split(strings.TrimPrefix(tg.Path, "/"), "/")
						k := int((uint32(ti)*7 + c.Pick) % uint32(len(steps)))
						pfx := ""
						if i := strings.IndexByte(steps[k], ':'); i >= 0 {
							pfx = steps[k][:i+1]
						}
						if k > 0 {
							mut := append(append(append([]string(nil), steps[:k]...), pfx+"nosuch-node", ".."), steps[k:]...)
							bad := "/" + strings.Join(mut, "/")
							negatives++
							classes["negative-missing-step-taken-back"] = true
							if g := st.e.Find(bad); g != nil {
								fail("non-existent-step", "negative/missing-step-then-dotdot", "from %s%s: Find(%q) returned %s although the step before \"..\" names no child", m.Name, st.path, bad, desc(g))
								return
							}
						}
					}
					// negative: one step replaced by a name that is no child there
					if (uint32(si*131+ti)*2246822519+c.Pick)%3 == 0 {
						steps := strings.Split(strings.TrimPrefix(tg.Path, "/"), "/")
						k := int((uint32(ti) + c.Pick) % uint32(len(steps)))
						pfx := ""
						if i := strings.IndexByte(steps[k], ':'); i >= 0 {
							pfx = steps[k][:i+1]
						}
						mut := append([]string(nil), steps...)
						mut[k] = pfx + "nosuch-node"
						bad := "/" + strings.Join(mut, "/")
						negatives++
						if g := st.e.Find(bad); g != nil {
							pos := "middle"
							switch {
							case k == len(steps)-1:
								pos = "last-step"
							case k == 0:
								pos = "first-step"
							}
							under := "plain"
							if k > 0 && (strings.HasSuffix(steps[k-1], ":input") || strings.HasSuffix(steps[k-1], ":output")) {
								under = "below-input-output"
							} else if k > 0 {
								if px := paths[namePath("/"+strings.Join(steps[:k], "/"))]; px != nil && (px.Kind == ymodel.KRPC || px.Kind == ymodel.KAction) {
									under = "directly-below-rpc"
								}
							}
							fail("non-existent-step", "negative/"+pos+"/"+under, "from %s%s: Find(%q) returned %s although step %d names no child", m.Name, st.path, bad, desc(g), k+1)
							return
						}
					}
				}
			}
		}
	})
	// lookups from the older revision that is loaded beside the set: its text binds the prefixes of the module's
	// imports to other modules than the module's own text does, and what a prefix denotes is a matter of the text
	// that holds the start node
	if ot := c.Set.OlderText(); ot != nil && len(o.Violations) == 0 {
		ev.Guard(&o, "lookups-from-older-revision", func() {
			om := obs.MS.Modules[c.Set.Older+"@2019-05-05"]
			if om == nil {
				return
			}
			oroot := yang.ToEntry(om)
			starts := []*yang.Entry{oroot}
			if e := oroot.Dir["older-only"]; e != nil {
				starts = append(starts, e)
			}
			// a node whose statement stands in the submodule that only the older revision includes: its own-prefix
			// paths lead into the older revision's tree, not into the one the bare module name denotes
			// a node that a module importing both revisions grafted into the older one: from there the prefix of
			// its undated import leads into the current revision's tree, the dated one's stays here
			if c.Set.OlderUserText() != nil {
				if oo := oroot.Dir["older-only"]; oo != nil && oo.Dir["from-olduser"] != nil {
					st := oo.Dir["from-olduser"]
					cur := obs.MS.Modules[c.Set.Older]
					if tt := trees[c.Set.Older]; cur != nil && tt != nil && tt.Root != nil {
						croot := yang.ToEntry(cur)
						names := make([]string, 0, len(tt.Root.Children))
						for k := range tt.Root.Children {
							names = append(names, k)
						}
						sort.Strings(names)
						for _, k := range names {
							want := croot.Dir[k]
							if want == nil {
								continue
							}
							lookups++
							classes["from-a-node-grafted-into-the-older-revision"] = true
							if got := st.Find("/pl:" + k); got != want {
								fail("absolute-lookup", "absolute/from-older-revision/current-revision", "from %s (grafted into %s@2019-05-05 by a module that imports both revisions): Find(%q) returned %s, the node is %s", st.Path(), c.Set.Older, "/pl:"+k, desc(got), desc(want))
								return
							}
						}
					}
					lookups++
					if got, want := st.Find("/po:older-only"), oo; got != want {
						fail("absolute-lookup", "absolute/from-older-revision/older-revision", "from %s: Find(\"/po:older-only\") returned %s, the node is %s", st.Path(), desc(got), desc(want))
						return
					}
				}
			}
			ownStarts := append([]*yang.Entry(nil), starts...)
			if e := oroot.Dir["oldsub-c"]; e != nil {
				ownStarts = append(ownStarts, e) // the submodule's text imports nothing: own-prefix paths only
			}
			for _, im := range c.Set.OlderImports() {
				tm := obs.MS.Modules[im.Module]
				tt := trees[im.Module]
				if tm == nil || tt == nil || tt.Root == nil {
					continue
				}
				troot := yang.ToEntry(tm)
				names := make([]string, 0, len(tt.Root.Children))
				for k := range tt.Root.Children {
					names = append(names, k)
				}
				sort.Strings(names)
				for _, k := range names {
					want := troot.Dir[k]
					if want == nil {
						continue
					}
					for _, st := range starts {
						lookups++
						classes["from-older-revision"] = true
						if got := st.Find("/" + im.Prefix + ":" + k); got != want {
							fail("absolute-lookup", "absolute/from-older-revision/other-module", "from %s@2019-05-05 %s (its text imports %s under %s): Find(%q) returned %s, the node is %s", c.Set.Older, st.Path(), im.Module, im.Prefix, "/"+im.Prefix+":"+k, desc(got), desc(want))
							return
						}
					}
				}
			}
			// and its own nodes under its own prefix
			mm := c.Set.Find(c.Set.Older)
			for _, name := range []string{"older-only", "oldsub-c", "older-only/from-oldsub"} {
				want := walkTo(oroot, "/"+name)
				if want == nil || mm == nil {
					continue
				}
				p := "/" + mm.Prefix + ":" + strings.ReplaceAll(name, "/", "/"+mm.Prefix+":")
				for _, st := range ownStarts {
					lookups++
					if got := st.Find(p); got != want {
						fail("absolute-lookup", "absolute/from-older-revision/same-module", "from %s@2019-05-05 %s: Find(%q) returned %s, the node is %s", c.Set.Older, st.Path(), p, desc(got), desc(want))
						return
					}
				}
			}
		})
	}
	for cl := range classes {
		o.Class("target/" + cl)
	}
	o.NonTrivial = lookups >= 10 && len(classes) >= 2
	_ = negatives
	_ = relatives
	return o
}

func desc(e *yang.Entry) string {
	if e == nil {
		return "nothing"
	}
	return fmt.Sprintf("%s (%p)", e.Path(), e)
}

func gen(t *rapid.T) Case {
	o := ymodel.DefaultOpts()
	o.Typedefs = false
	o.Budget = 22
	set, _ := schema.Generate(t, o)
	schema.AddAugments(t, set, 0, 4)
	c := Case{Set: set, Pick: rapid.Uint32().Draw(t, "pick")}
	if rapid.Bool().Draw(t, "permute") {
		c.Order = schema.Order(t, len(set.Modules))
	}
	return c
}

func TestCheck(t *testing.T) {
	ev.Run(t, ev.Spec[Case]{
		ID:    "C17",
		Level: "exploration",
		Rule: "processed trees of module sets from the schema model (uses, submodules, augments also into unwritten rpc input/output, choices with implicit cases, rpc/action input and output) x start nodes (every module root and a seeded quarter of all other nodes, including nodes written in submodules, grafted by augments of other modules and copied from groupings of other modules) x every node of every module the start's (sub)module can name (itself or imported): the absolute path spelled with the start module's prefixes, the relative path with '..' steps when both are in one tree, and for a seeded third of the pairs the path with one step replaced by a name that is no child there (first, middle, last step; below rpc, below input/output). " +
			"Oracle: pointer identity with the node reached by walking Dir/RPC by names; negative paths return nil. " +
			"Non-trivial = at least 10 lookups over at least 2 target classes (plain, copied by uses, grafted by augment, implicit case, below rpc input/output); distinct by (set, order, pick)",
		Assumptions: []string{
			"for a start node placed by uses or augment the prefixes of the (sub)module whose text contains its statement are used (the only import table that can be meant); later path steps carry the RFC-correct prefix",
			"unwritten input/output of an action is not a target",
		},
		Check: check,
		Gen:   gen,
		Risky: true,
	})
}
