// Package textgen holds the rapid generators for YANG *texts*: statement
// forests with hostile argument strings, rendered by rfc6.Printer.
package textgen

import (
	"pgregory.net/rapid"

	"verif/lib/rfc6"
)

// Chooser adapts a rapid.T to rfc6.Chooser.
type Chooser struct{ T *rapid.T }

func (c Chooser) Intn(label string, n int) int {
	if n <= 1 {
		return 0
	}
	return rapid.IntRange(0, n-1).Draw(c.T, label)
}

var keywords = []string{"a", "b", "leaf", "container", "pattern", "pattern", "description", "p:ext", "x:y:z", "kéy", "+", "/x", "a+b", "k-1.2", "*", "世", "k\uFFFDy", "\U0001D11E", "\u2028k", "\fk", "k\u00A0", "\u0085"}

var argRunes = []rune{'a', 'b', 'z', '0', ' ', ' ', '\t', '\n', '\n', '"', '\'', '\\', ';', '{', '}', '/', '*', '+', 'é', '世', 'n', 't', '\r', '-', ':', '\uFFFD', '\U0001D11E', '\f', '\v', '\u0085', '\u00A0', '\u2028', '\u3000'}

func genArg(t *rapid.T) string {
	switch rapid.IntRange(0, 9).Draw(t, "arg-shape") {
	case 0:
		return ""
	case 1, 2:
		return rapid.StringMatching(`[a-z][a-z0-9:-]{0,8}`).Draw(t, "ident")
	case 3:
		// indented multi-line text
		n := rapid.IntRange(2, 4).Draw(t, "lines")
		s := ""
		for i := 0; i < n; i++ {
			if i > 0 {
				s += "\n"
			}
			s += rapid.StringOfN(rapid.RuneFrom([]rune{' ', ' ', '\t'}), 0, 4, -1).Draw(t, "lead")
			s += rapid.StringOfN(rapid.RuneFrom([]rune{'a', 'b', ' ', 'é', '\\', '"', '\uFFFD'}), 0, 6, -1).Draw(t, "body")
			s += rapid.StringOfN(rapid.RuneFrom([]rune{' ', '\t'}), 0, 2, -1).Draw(t, "trail")
		}
		return s
	case 4:
		// regex-like, for pattern statements
		return rapid.StringOfN(rapid.RuneFrom([]rune{'\\', 'd', 'S', '{', '}', '[', ']', '+', '*', 'a', '.', '"', '\'', 'n', 't', ' '}), 0, 10, -1).Draw(t, "regex")
	default:
		return rapid.StringOfN(rapid.RuneFrom(argRunes), 0, 24, -1).Draw(t, "hostile")
	}
}

func genNode(t *rapid.T, depth int) *rfc6.Node {
	n := &rfc6.Node{Keyword: rapid.SampledFrom(keywords).Draw(t, "keyword")}
	if rapid.IntRange(0, 5).Draw(t, "has-arg") > 0 {
		n.HasArg = true
		n.Arg = genArg(t)
	}
	if depth < 4 {
		k := rapid.IntRange(0, 6).Draw(t, "children")
		if k > 3 {
			k = 0
		}
		for i := 0; i < k; i++ {
			n.Subs = append(n.Subs, genNode(t, depth+1))
		}
	}
	return n
}

// Forest draws a statement forest.
func Forest(t *rapid.T) []*rfc6.Node {
	k := rapid.IntRange(0, 3).Draw(t, "top")
	if k == 0 && rapid.Bool().Draw(t, "nonempty") {
		k = 1
	}
	var f []*rfc6.Node
	for i := 0; i < k; i++ {
		f = append(f, genNode(t, 0))
	}
	return f
}

// Render prints the forest with random layout.
func Render(t *rapid.T, f []*rfc6.Node) string {
	p := rfc6.NewPrinter(Chooser{t})
	p.Forest(f)
	return p.String()
}

var mutRunes = []rune{'a', ' ', '\n', '\t', '\r', ';', '{', '}', '"', '\'', '\\', '+', '/', '*', 'n', 'é', '\uFFFD', '\f', '\v', '\u00A0', '\u2028'}

// Mutate applies one character-level mutation.
func Mutate(t *rapid.T, text string) string {
	rs := []rune(text)
	switch rapid.IntRange(0, 5).Draw(t, "mutation") {
	case 4: // put quotes around a punctuation character or a '+' (the token then is a string, not an operator)
		var at []int
		for i, r := range rs {
			if r == '+' || r == ';' || r == '{' || r == '}' {
				at = append(at, i)
			}
		}
		if len(at) == 0 {
			return text
		}
		i := at[rapid.IntRange(0, len(at)-1).Draw(t, "quote-at")]
		q := rapid.SampledFrom([]string{"\"", "'"}).Draw(t, "quote-kind")
		return string(rs[:i]) + q + string(rs[i]) + q + string(rs[i+1:])
	case 5: // drop one quote character pair around a token: "x" -> x
		var at []int
		for i, r := range rs {
			if r == '"' || r == '\'' {
				at = append(at, i)
			}
		}
		if len(at) < 2 {
			return text
		}
		k := rapid.IntRange(0, len(at)-2).Draw(t, "unquote-at")
		a, b := at[k], at[k+1]
		return string(rs[:a]) + string(rs[a+1:b]) + string(rs[b+1:])
	case 0: // delete
		if len(rs) == 0 {
			return text
		}
		i := rapid.IntRange(0, len(rs)-1).Draw(t, "del-at")
		return string(rs[:i]) + string(rs[i+1:])
	case 1: // insert
		i := rapid.IntRange(0, len(rs)).Draw(t, "ins-at")
		r := rapid.SampledFrom(mutRunes).Draw(t, "ins-rune")
		return string(rs[:i]) + string(r) + string(rs[i:])
	case 2: // duplicate a span
		if len(rs) == 0 {
			return text
		}
		i := rapid.IntRange(0, len(rs)-1).Draw(t, "dup-at")
		j := i + rapid.IntRange(1, 6).Draw(t, "dup-len")
		if j > len(rs) {
			j = len(rs)
		}
		return string(rs[:j]) + string(rs[i:j]) + string(rs[j:])
	default: // replace
		if len(rs) == 0 {
			return text
		}
		i := rapid.IntRange(0, len(rs)-1).Draw(t, "rep-at")
		r := rapid.SampledFrom(mutRunes).Draw(t, "rep-rune")
		return string(rs[:i]) + string(r) + string(rs[i+1:])
	}
}

// Frags is the 16-fragment alphabet of the exhaustive text enumerations.
var Frags = []string{"a", "pattern", " ", "\n", "\t", "\r", ";", "{", "}", "\"", "'", "\\", "+", "/", "*", "n"}

// EnumTexts emits every concatenation of 1..maxL fragments that belongs to
// the shard (texts are assigned by their first two fragments; one-fragment
// texts go to shard 0). It returns false if emit stopped the enumeration.
func EnumTexts(maxL, shard, shards int, emit func(string) bool) bool {
	ok := true
	var rec func(prefix string, l int)
	rec = func(prefix string, l int) {
		if !ok {
			return
		}
		if !emit(prefix) {
			ok = false
			return
		}
		if l == maxL {
			return
		}
		for _, f := range Frags {
			rec(prefix+f, l+1)
		}
	}
	idx := 0
	for _, f := range Frags {
		if shard == 0 && !emit(f) {
			return false
		}
		if maxL < 2 {
			continue
		}
		for _, g := range Frags {
			idx++
			if idx%shards == shard {
				rec(f+g, 2)
				if !ok {
					return false
				}
			}
		}
	}
	return ok
}
