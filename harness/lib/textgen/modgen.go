package textgen

import (
	"fmt"

	"pgregory.net/rapid"

	"verif/lib/rfc6"
)

// File is one generated source file.
type File struct {
	Name   string
	Forest []*rfc6.Node
	Text   string
}

// ModGen builds small, semantically valid YANG modules as statement forests
// (so that the printer knows the position of every statement).
type ModGen struct {
	t         *rapid.T
	n         int
	typedefs  []string // visible at top level of the module (incl. submodule)
	groupings []string
	prefix    string
}

func N(k string, args ...any) *rfc6.Node {
	n := &rfc6.Node{Keyword: k}
	for _, a := range args {
		switch v := a.(type) {
		case string:
			n.HasArg, n.Arg = true, v
		case *rfc6.Node:
			if v != nil {
				n.Subs = append(n.Subs, v)
			}
		case []*rfc6.Node:
			n.Subs = append(n.Subs, v...)
		}
	}
	return n
}

func (g *ModGen) name(p string) string { g.n++; return fmt.Sprintf("%s%d", p, g.n) }

var builtinTypes = []string{"string", "int8", "int32", "uint8", "uint16", "uint64", "boolean", "binary", "empty", "decimal64", "enumeration", "bits", "union"}

func (g *ModGen) typeStmt(depth int) *rfc6.Node {
	t := g.t
	if len(g.typedefs) > 0 && rapid.IntRange(0, 3).Draw(t, "use-typedef") == 0 {
		name := rapid.SampledFrom(g.typedefs).Draw(t, "typedef-ref")
		if rapid.Bool().Draw(t, "own-prefix") {
			name = g.prefix + ":" + name
		}
		return N("type", name)
	}
	b := rapid.SampledFrom(builtinTypes).Draw(t, "builtin")
	switch b {
	case "decimal64":
		return N("type", b, N("fraction-digits", fmt.Sprint(rapid.IntRange(1, 18).Draw(t, "fd"))))
	case "enumeration":
		ty := N("type", b)
		k := rapid.IntRange(1, 3).Draw(t, "enums")
		for i := 0; i < k; i++ {
			e := N("enum", fmt.Sprintf("e%d", i))
			if rapid.Bool().Draw(t, "enum-value") {
				e.Subs = append(e.Subs, N("value", fmt.Sprint(i*10+1)))
			}
			ty.Subs = append(ty.Subs, e)
		}
		return ty
	case "bits":
		return N("type", b, N("bit", "b0", N("position", "0")), N("bit", "b1"))
	case "union":
		if depth > 1 {
			return N("type", "string")
		}
		return N("type", b, g.typeStmt(depth+1), g.typeStmt(depth+1))
	case "string":
		ty := N("type", b)
		if rapid.Bool().Draw(t, "length") {
			ty.Subs = append(ty.Subs, N("length", rapid.SampledFrom([]string{"1..10", "0..5 | 8", "min..255", "3"}).Draw(t, "len")))
		}
		if rapid.Bool().Draw(t, "pattern") {
			ty.Subs = append(ty.Subs, N("pattern", rapid.SampledFrom([]string{"[a-z]+", `\d{2}\.\S*`, "a|b"}).Draw(t, "pat")))
		}
		return ty
	case "int8", "int32", "uint8", "uint16", "uint64":
		ty := N("type", b)
		if rapid.Bool().Draw(t, "range") {
			ty.Subs = append(ty.Subs, N("range", rapid.SampledFrom([]string{"1..10", "0..5 | 8..9", "min..100", "7", "0..max"}).Draw(t, "rng")))
		}
		return ty
	}
	return N("type", b)
}

func (g *ModGen) desc() *rfc6.Node {
	if rapid.IntRange(0, 3).Draw(g.t, "desc") > 0 {
		return nil
	}
	return N("description", genArg(g.t))
}

func (g *ModGen) leaf() *rfc6.Node {
	l := N("leaf", g.name("l"), g.desc(), g.typeStmt(0))
	if rapid.IntRange(0, 4).Draw(g.t, "leaf-config") == 0 {
		l.Subs = append(l.Subs, N("config", rapid.SampledFrom([]string{"true", "false"}).Draw(g.t, "cfg")))
	}
	return l
}

func (g *ModGen) dataNode(depth int, allowConfig bool) *rfc6.Node {
	t := g.t
	k := rapid.IntRange(0, 9).Draw(t, "node-kind")
	if depth >= 3 && k >= 3 && k <= 6 {
		k = 0
	}
	switch k {
	case 0, 1, 2:
		return g.leaf()
	case 3, 4:
		c := N("container", g.name("c"), g.desc())
		if rapid.IntRange(0, 3).Draw(t, "local-typedef") == 0 {
			c.Subs = append(c.Subs, N("typedef", g.name("lt"), g.typeStmt(0)))
		}
		c.Subs = append(c.Subs, g.children(depth+1)...)
		return c
	case 5:
		key := N("leaf", g.name("k"), N("type", "string"))
		l := N("list", g.name("ls"), N("key", key.Arg), key)
		l.Subs = append(l.Subs, g.children(depth+1)...)
		return l
	case 6:
		ch := N("choice", g.name("ch"))
		ch.Subs = append(ch.Subs, N("case", g.name("cs"), g.leaf()), g.leaf())
		return ch
	case 7:
		return N("leaf-list", g.name("ll"), g.typeStmt(0), g.desc())
	case 8:
		if len(g.groupings) > 0 {
			// every grouping is used at most once, so that node names stay unique
			i := rapid.IntRange(0, len(g.groupings)-1).Draw(t, "grouping-ref")
			name := g.groupings[i]
			g.groupings = append(g.groupings[:i:i], g.groupings[i+1:]...)
			return N("uses", name)
		}
		return g.leaf()
	default:
		return N(rapid.SampledFrom([]string{"anydata", "anyxml"}).Draw(t, "any"), g.name("x"))
	}
}

func (g *ModGen) children(depth int) []*rfc6.Node {
	k := rapid.IntRange(1, 3).Draw(g.t, "n-children")
	var out []*rfc6.Node
	for i := 0; i < k; i++ {
		out = append(out, g.dataNode(depth, true))
	}
	return out
}

func (g *ModGen) body(k int) []*rfc6.Node {
	t := g.t
	var out []*rfc6.Node
	for i := 0; i < k; i++ {
		switch rapid.IntRange(0, 9).Draw(t, "top-kind") {
		case 0, 1:
			name := g.name("t")
			out = append(out, N("typedef", name, g.typeStmt(0), g.desc()))
			g.typedefs = append(g.typedefs, name)
		case 2:
			name := g.name("g")
			gr := N("grouping", name)
			gr.Subs = append(gr.Subs, g.children(1)...)
			out = append(out, gr)
			g.groupings = append(g.groupings, name)
		case 3:
			r := N("rpc", g.name("r"), g.desc())
			if rapid.Bool().Draw(t, "rpc-input") {
				in := N("input")
				in.Subs = append(in.Subs, g.children(2)...)
				r.Subs = append(r.Subs, in)
			}
			if rapid.Bool().Draw(t, "rpc-output") {
				o := N("output")
				o.Subs = append(o.Subs, g.children(2)...)
				r.Subs = append(r.Subs, o)
			}
			out = append(out, r)
		case 4:
			n := N("notification", g.name("n"))
			n.Subs = append(n.Subs, g.children(2)...)
			out = append(out, n)
		case 5:
			out = append(out, N("identity", g.name("i")))
		default:
			out = append(out, g.dataNode(0, true))
		}
	}
	return out
}

// ModuleSet draws a module "m" (file m.yang) and, half of the time, a
// submodule "s" (file s.yang) that m includes.
func ModuleSet(t *rapid.T) []*File {
	g := &ModGen{t: t, prefix: "p"}
	var files []*File
	withSub := rapid.Bool().Draw(t, "with-submodule")
	var subBody []*rfc6.Node
	if withSub {
		subBody = g.body(rapid.IntRange(1, 4).Draw(t, "sub-body"))
	}
	mod := N("module", "m")
	if rapid.Bool().Draw(t, "yang-version") {
		mod.Subs = append(mod.Subs, N("yang-version", "1.1"))
	}
	mod.Subs = append(mod.Subs, N("namespace", "urn:m"), N("prefix", "p"))
	if withSub {
		mod.Subs = append(mod.Subs, N("include", "s"))
	}
	if rapid.Bool().Draw(t, "meta") {
		mod.Subs = append(mod.Subs, N("organization", genArg(t)), N("contact", genArg(t)), N("description", genArg(t)))
	}
	if rapid.Bool().Draw(t, "revision") {
		mod.Subs = append(mod.Subs, N("revision", "2020-01-01", N("description", genArg(t))))
	}
	mod.Subs = append(mod.Subs, g.body(rapid.IntRange(1, 6).Draw(t, "mod-body"))...)
	files = append(files, &File{Name: "m.yang", Forest: []*rfc6.Node{mod}})
	if withSub {
		sub := N("submodule", "s", N("belongs-to", "m", N("prefix", "p")))
		sub.Subs = append(sub.Subs, subBody...)
		files = append(files, &File{Name: "s.yang", Forest: []*rfc6.Node{sub}})
	}
	return files
}

// Walk visits every node of a forest with its parent.
func Walk(f []*rfc6.Node, parent *rfc6.Node, fn func(n, parent *rfc6.Node)) {
	for _, n := range f {
		fn(n, parent)
		Walk(n.Subs, n, fn)
	}
}
