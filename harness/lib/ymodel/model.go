// Package ymodel is a typed model of YANG module sets — the "programs" most
// properties quantify over — with a printer to YANG text. The reference
// semantics (package yref) work on this model only.
package ymodel

import (
	"fmt"
	"sort"
	"strings"
)

// Set is a set of modules and submodules.
type Set struct {
	Modules []*Module `json:"modules"`
	// Older: an older revision of this module of the set is loaded as well, before or after the others. It has
	// the same namespace and prefix, defines the module's top-level typedef, grouping and identity names and its
	// first container differently, and holds a shorthand choice, an augment of its own and an rpc. Nothing
	// refers to it: every name and import denotes the module of the set, which carries a later revision.
	Older      string `json:"older_revision_of,omitempty"`
	OlderFirst bool   `json:"older_first,omitempty"`
	// OneLine: every text of the set is written on a single line (statements are told apart by their columns
	// only; whatever orders or keys things by line number meets nothing but ties).
	OneLine bool `json:"one_line,omitempty"`
	// Extra: further texts loaded after the others (e.g. an older, empty revision of a deviating module).
	Extra []Source `json:"extra_texts,omitempty"`
}

// OlderImports: the older revision imports under every prefix that the module's own text uses for an import - but,
// where the set has one, another module than that text does (a module renamed or split between revisions keeps
// its prefixes). Nothing in the older text uses them; what a prefix denotes depends on the text that asks.
func (s *Set) OlderImports() []Import {
	m := s.Find(s.Older)
	if m == nil {
		return nil
	}
	var out []Import
	seen := map[string]bool{}
	for _, im := range m.Imports {
		if seen[im.Prefix] || im.Prefix == m.Prefix {
			continue
		}
		seen[im.Prefix] = true
		other := im.Module
		for _, x := range s.Modules {
			if !x.IsSub && x.Name != m.Name && x.Name != im.Module {
				other = x.Name
				break
			}
		}
		out = append(out, Import{Module: other, Prefix: im.Prefix})
	}
	return out
}

// OlderSubText is the submodule that only the older revision includes (nil if there is no older revision): a
// container of its own and an augment of a container of the older revision, whose path leads into the revision that
// includes the submodule although the bare name of the module denotes another one.
func (s *Set) OlderSubText() *Source {
	m := s.Find(s.Older)
	if m == nil || m.IsSub || len(m.Revisions) == 0 {
		return nil
	}
	aug := ""
	if s.OlderFirst {
		// in half of the sets; in the other half nothing in the submodule makes Process itself ask into which
		// revision a path from this submodule leads, so the first to ask is a reader
		aug = fmt.Sprintf("  augment \"/%s:older-only\" { leaf from-oldsub { type string; } }\n", m.Prefix)
	}
	text := fmt.Sprintf("submodule %s-oldsub {\n  belongs-to %s { prefix %s; }\n  container oldsub-c { leaf x { type string; } }\n%s}\n", m.Name, m.Name, m.Prefix, aug)
	return &Source{Name: m.Name + "-oldsub.yang", Text: s.layout(text)}
}

// OlderUserText is a module that imports both the current and the older revision of the module (the latter by its
// revision-date) and augments the older revision's container: a node whose statement stands in this text lives in
// the older revision's tree, and from there the prefix of the undated import leads into the other tree of that
// name. Only in the sets whose older text comes first (nil otherwise).
func (s *Set) OlderUserText() *Source {
	m := s.Find(s.Older)
	if m == nil || m.IsSub || len(m.Revisions) == 0 || !s.OlderFirst {
		return nil
	}
	text := fmt.Sprintf("module %s-olduser {\n  namespace \"urn:%s-olduser\";\n  prefix ou;\n  import %s { prefix pl; }\n  import %s { prefix po; revision-date 2019-05-05; }\n  augment \"/po:older-only\" { leaf from-olduser { type string; } }\n}\n", m.Name, m.Name, m.Name, m.Name)
	return &Source{Name: m.Name + "-olduser.yang", Text: s.layout(text)}
}

// OlderText is the text of the older revision (nil if there is none).
func (s *Set) OlderText() *Source {
	m := s.Find(s.Older)
	if m == nil || m.IsSub || len(m.Revisions) == 0 {
		return nil
	}
	var b strings.Builder
	fmt.Fprintf(&b, "module %s {\n  namespace %s;\n  prefix %s;\n", m.Name, Q(m.Namespace), m.Prefix)
	for _, im := range s.OlderImports() {
		fmt.Fprintf(&b, "  import %s { prefix %s; }\n", im.Module, im.Prefix)
	}
	fmt.Fprintf(&b, "  include %s-oldsub;\n", m.Name)
	b.WriteString("  revision 2019-05-05;\n")
	seen := map[string]bool{}
	for _, x := range s.Modules {
		if x != m && !(x.IsSub && x.BelongsTo == m.Name) {
			continue
		}
		for _, td := range x.Typedefs {
			if !seen["t:"+td.Name] {
				seen["t:"+td.Name] = true
				fmt.Fprintf(&b, "  typedef %s { type boolean; units \"older\"; }\n", td.Name)
			}
		}
		for _, g := range x.Groupings {
			if !seen["g:"+g.Name] {
				seen["g:"+g.Name] = true
				fmt.Fprintf(&b, "  grouping %s { leaf older-%s { type string; } }\n", g.Name, g.Name)
			}
		}
		for _, id := range x.Identities {
			if !seen["i:"+id.Name] {
				seen["i:"+id.Name] = true
				fmt.Fprintf(&b, "  identity %s;\n", id.Name)
				// ... and derives one from it, the base written without prefix or with the module's own: it
				// names the identity of this revision, not the one of that name in the other revision
				own := ""
				if len(seen)%2 == 0 {
					own = m.Prefix + ":"
				}
				fmt.Fprintf(&b, "  identity older-d-%s { base %s%s; }\n", id.Name, own, id.Name)
			}
		}
	}
	for _, n := range m.Nodes {
		if n.Kind == KContainer {
			fmt.Fprintf(&b, "  container %s { leaf older-child { type string; } }\n", n.Name)
			break
		}
	}
	fmt.Fprintf(&b, "  container older-only {\n    choice och { leaf oa { type string; } container ob { leaf x { type string; } } }\n  }\n  augment \"/%s:older-only\" { leaf oz { type string; } choice och2 { leaf ob2 { type string; } } }\n  rpc older-op { input { leaf i { type string; } } }\n}\n", m.Prefix)
	return &Source{Name: m.Name + "@2019-05-05.yang", Text: s.layout(b.String())}
}

// layout applies the set's layout choice to a printed text. The printers put no raw line break inside a quoted
// string and write no // comments, so joining the lines changes no statement.
func (s *Set) layout(text string) string {
	if !s.OneLine {
		return text
	}
	lines := strings.Split(text, "\n")
	for i := range lines {
		lines[i] = strings.TrimLeft(lines[i], " ")
	}
	return strings.TrimRight(strings.Join(lines, " "), " ") + "\n"
}

type Import struct {
	Module   string `json:"module"`
	Prefix   string `json:"prefix"`
	Revision string `json:"revision,omitempty"`
}

type Module struct {
	Name      string   `json:"name"`
	IsSub     bool     `json:"sub,omitempty"`
	BelongsTo string   `json:"belongs_to,omitempty"`
	Prefix    string   `json:"prefix"` // module prefix / belongs-to prefix
	Namespace string   `json:"namespace,omitempty"`
	Imports   []Import `json:"imports,omitempty"`
	Includes  []string `json:"includes,omitempty"`
	Revisions []string `json:"revisions,omitempty"`
	Body
	Augments   []*Augment   `json:"augments,omitempty"`
	Deviations []*Deviation `json:"deviations,omitempty"`
	Identities []*Identity  `json:"identities,omitempty"`
	// ExtDefs: extension statements the module defines (name; each takes one argument)
	ExtDefs []string `json:"extension_definitions,omitempty"`
}

// OCExtModule / OCExtPrefix: the module whose posix-pattern extension goyang knows, and the prefix the generated
// files import it under.
const (
	OCExtModule = "openconfig-extensions"
	OCExtPrefix = "oc-ext"
)

// UsesPosix: some type statement of the file carries a posix-pattern.
func (m *Module) UsesPosix() bool {
	found := false
	var typ func(t *TypeRef)
	typ = func(t *TypeRef) {
		if t == nil {
			return
		}
		if len(t.Posix) > 0 {
			found = true
		}
		for _, u := range t.Union {
			typ(u)
		}
	}
	var walk func(b *Body)
	walk = func(b *Body) {
		for _, td := range b.Typedefs {
			typ(td.Type)
		}
		for _, g := range b.Groupings {
			walk(&g.Body)
		}
		for _, n := range b.Nodes {
			typ(n.Type)
			walk(&n.Body)
		}
	}
	walk(&m.Body)
	for _, a := range m.Augments {
		walk(&a.Body)
	}
	return found
}

// Body is what a scope can hold.
type Body struct {
	Typedefs  []*Typedef  `json:"typedefs,omitempty"`
	Groupings []*Grouping `json:"groupings,omitempty"`
	Nodes     []*Node     `json:"nodes,omitempty"`
}

type Typedef struct {
	Name  string   `json:"name"`
	Type  *TypeRef `json:"type"`
	Units string   `json:"units,omitempty"`
	// EmptyUnits: the typedef says units ""; (a definition like any other: it hides the units of the types below)
	EmptyUnits bool    `json:"empty_units,omitempty"`
	Default    *string `json:"default,omitempty"`
}

type EnumM struct {
	Name  string `json:"name"`
	Value *int64 `json:"value,omitempty"`
}

// TypeRef is a type statement.
type TypeRef struct {
	Prefix   string   `json:"prefix,omitempty"` // as written; "" = none
	Name     string   `json:"name"`
	Range    string   `json:"range,omitempty"`
	Length   string   `json:"length,omitempty"`
	Patterns []string `json:"patterns,omitempty"`
	// Posix: arguments of oc-ext:posix-pattern statements (the openconfig-extensions way of writing patterns)
	Posix          []string   `json:"posix_patterns,omitempty"`
	Enums          []EnumM    `json:"enums,omitempty"`
	Bits           []EnumM    `json:"bits,omitempty"`
	FractionDigits int        `json:"fraction_digits,omitempty"`
	Path           string     `json:"path,omitempty"`
	Union          []*TypeRef `json:"union,omitempty"`
	Base           string     `json:"base,omitempty"` // identityref base, as written
}

func (t *TypeRef) Written() string {
	if t.Prefix != "" {
		return t.Prefix + ":" + t.Name
	}
	return t.Name
}

type Grouping struct {
	Name string `json:"name"`
	Body
}

// Node kinds.
const (
	KContainer    = "container"
	KList         = "list"
	KLeaf         = "leaf"
	KLeafList     = "leaf-list"
	KChoice       = "choice"
	KCase         = "case"
	KAnydata      = "anydata"
	KAnyxml       = "anyxml"
	KUses         = "uses"
	KRPC          = "rpc"
	KAction       = "action"
	KNotification = "notification"
	KInput        = "input"
	KOutput       = "output"
)

type Node struct {
	Kind      string   `json:"kind"`
	Name      string   `json:"name,omitempty"` // uses: grouping name as written (with prefix)
	Config    *bool    `json:"config,omitempty"`
	Mandatory *bool    `json:"mandatory,omitempty"`
	Default   []string `json:"default,omitempty"`
	Type      *TypeRef `json:"type,omitempty"`
	Key       string   `json:"key,omitempty"`
	Min       string   `json:"min,omitempty"`
	Max       string   `json:"max,omitempty"`
	OrderedBy string   `json:"ordered_by,omitempty"`
	Units     string   `json:"units,omitempty"`
	Desc      string   `json:"desc,omitempty"`
	// IfFeatures: if-feature statements on the node (on a uses: in its block), in written order.
	IfFeatures []string `json:"if_features,omitempty"`
	// Extras: further statements of the node (on a uses: in its block) in written order - must, when, status,
	// reference, presence, and extension statements (keyword with a prefix).
	Extras []Stmt `json:"extras,omitempty"`
	Body          // typedefs, groupings, children
}

// Stmt is a statement that goyang keeps without interpreting it: a constraint (must, when, presence), an
// annotation (status, reference) or an extension statement.
type Stmt struct {
	Kw  string `json:"kw"`
	Arg string `json:"arg"`
}

// IsExt: the statement is an extension statement (its keyword carries a prefix).
func (s Stmt) IsExt() bool { return strings.Contains(s.Kw, ":") }

// ExtKeyword is the extension statement that the files of m may strew over their nodes (every file that uses it
// declares the extension itself).
func (m *Module) ExtKeyword() string { return m.Prefix + ":note" }

type Augment struct {
	Path       string   `json:"path"`
	IfFeatures []string `json:"if_features,omitempty"`
	Extras     []Stmt   `json:"extras,omitempty"`
	Body                // nodes (incl. uses, case)
}

type Deviate struct {
	Kind      string  `json:"kind"` // not-supported add replace delete (or an unknown word)
	Config    *bool   `json:"config,omitempty"`
	Mandatory *bool   `json:"mandatory,omitempty"`
	Default   *string `json:"default,omitempty"`
	Min       string  `json:"min,omitempty"`
	Max       string  `json:"max,omitempty"`
	Units     string  `json:"units,omitempty"`
	// EmptyUnits: the statement is units ""; (Units is then empty too).
	EmptyUnits bool     `json:"empty_units,omitempty"`
	Type       *TypeRef `json:"type,omitempty"`
}

type Deviation struct {
	Path     string     `json:"path"`
	Deviates []*Deviate `json:"deviates"`
}

type Identity struct {
	Name  string   `json:"name"`
	Bases []string `json:"bases,omitempty"` // as written
}

// ---------------------------------------------------------------------------

// FileName returns the name a module's text is loaded under.
func (m *Module) FileName() string {
	if len(m.Revisions) > 0 {
		return m.Name + "@" + m.Revisions[0] + ".yang"
	}
	return m.Name + ".yang"
}

// Find returns the module or submodule named name.
func (s *Set) Find(name string) *Module {
	for _, m := range s.Modules {
		if m.Name == name {
			return m
		}
	}
	return nil
}

// Owner returns the module a (sub)module belongs to.
func (s *Set) Owner(m *Module) *Module {
	if !m.IsSub {
		return m
	}
	return s.Find(m.BelongsTo)
}

// ---------------------------------------------------------------------------
// printer

type pr struct {
	b   strings.Builder
	ind int
}

func (p *pr) line(format string, args ...any) {
	p.b.WriteString(strings.Repeat("  ", p.ind))
	fmt.Fprintf(&p.b, format, args...)
	p.b.WriteByte('\n')
}

func (p *pr) open(format string, args ...any) {
	p.line(format+" {", args...)
	p.ind++
}

func (p *pr) close() {
	p.ind--
	p.line("}")
}

// Q quotes a string argument.
func Q(s string) string {
	r := strings.NewReplacer(`\`, `\\`, `"`, `\"`, "\n", `\n`, "\t", `\t`)
	return `"` + r.Replace(s) + `"`
}

func boolS(b bool) string {
	if b {
		return "true"
	}
	return "false"
}

// Text renders the module as YANG.
// FeatureName is the k-th feature of the file of m (every file declares the features it names itself).
func (m *Module) FeatureName(k int) string {
	return fmt.Sprintf("f%sx%d", strings.ReplaceAll(m.Name, "-", ""), k)
}

// usedFeatures lists the features named by if-feature statements of the file, sorted.
func (m *Module) usedFeatures() []string {
	seen := map[string]bool{}
	var walk func(b *Body)
	walk = func(b *Body) {
		for _, g := range b.Groupings {
			walk(&g.Body)
		}
		for _, n := range b.Nodes {
			for _, f := range n.IfFeatures {
				seen[f] = true
			}
			walk(&n.Body)
		}
	}
	walk(&m.Body)
	for _, a := range m.Augments {
		for _, f := range a.IfFeatures {
			seen[f] = true
		}
		walk(&a.Body)
	}
	out := make([]string, 0, len(seen))
	for f := range seen {
		out = append(out, f)
	}
	sort.Strings(out)
	return out
}

// usesExt: some node, uses or augment of the file carries an extension statement.
func (m *Module) usesExt() bool {
	found := false
	has := func(x []Stmt) {
		for _, e := range x {
			if e.IsExt() {
				found = true
			}
		}
	}
	var walk func(b *Body)
	walk = func(b *Body) {
		for _, g := range b.Groupings {
			walk(&g.Body)
		}
		for _, n := range b.Nodes {
			has(n.Extras)
			walk(&n.Body)
		}
	}
	walk(&m.Body)
	for _, a := range m.Augments {
		has(a.Extras)
		walk(&a.Body)
	}
	return found
}

func (p *pr) extras(x []Stmt) {
	for _, e := range x {
		p.line("%s %s;", e.Kw, Q(e.Arg))
	}
}

func (m *Module) Text() string {
	p := &pr{}
	if m.IsSub {
		p.open("submodule %s", m.Name)
		p.line("belongs-to %s { prefix %s; }", m.BelongsTo, m.Prefix)
	} else {
		p.open("module %s", m.Name)
		p.line("namespace %s;", Q(m.Namespace))
		p.line("prefix %s;", m.Prefix)
	}
	for _, i := range m.Imports {
		if i.Revision != "" {
			p.line("import %s { prefix %s; revision-date %s; }", i.Module, i.Prefix, i.Revision)
		} else {
			p.line("import %s { prefix %s; }", i.Module, i.Prefix)
		}
	}
	for _, i := range m.Includes {
		p.line("include %s;", i)
	}
	for _, r := range m.Revisions {
		p.line("revision %s;", r)
	}
	for _, f := range m.usedFeatures() {
		p.line("feature %s;", f)
	}
	if m.usesExt() {
		p.line("extension note { argument text; }")
	}
	for _, e := range m.ExtDefs {
		p.line("extension %s { argument a; }", e)
	}
	for _, id := range m.Identities {
		if len(id.Bases) == 0 {
			p.line("identity %s;", id.Name)
			continue
		}
		p.open("identity %s", id.Name)
		for _, b := range id.Bases {
			p.line("base %s;", b)
		}
		p.close()
	}
	p.body(&m.Body)
	for _, a := range m.Augments {
		p.open("augment %s", Q(a.Path))
		for _, f := range a.IfFeatures {
			p.line("if-feature %s;", f)
		}
		p.extras(a.Extras)
		p.body(&a.Body)
		p.close()
	}
	for _, d := range m.Deviations {
		p.open("deviation %s", Q(d.Path))
		for _, dv := range d.Deviates {
			p.deviate(dv)
		}
		p.close()
	}
	p.close()
	return p.b.String()
}

func (p *pr) deviate(d *Deviate) {
	if d.Config == nil && d.Mandatory == nil && d.Default == nil && d.Min == "" && d.Max == "" && d.Units == "" && !d.EmptyUnits && d.Type == nil {
		p.line("deviate %s;", d.Kind)
		return
	}
	p.open("deviate %s", d.Kind)
	if d.Type != nil {
		p.typ(d.Type)
	}
	if d.Units != "" || d.EmptyUnits {
		p.line("units %s;", Q(d.Units))
	}
	if d.Default != nil {
		p.line("default %s;", Q(*d.Default))
	}
	if d.Config != nil {
		p.line("config %s;", boolS(*d.Config))
	}
	if d.Mandatory != nil {
		p.line("mandatory %s;", boolS(*d.Mandatory))
	}
	if d.Min != "" {
		p.line("min-elements %s;", d.Min)
	}
	if d.Max != "" {
		p.line("max-elements %s;", d.Max)
	}
	p.close()
}

func (p *pr) body(b *Body) {
	for _, t := range b.Typedefs {
		p.open("typedef %s", t.Name)
		p.typ(t.Type)
		if t.Units != "" || t.EmptyUnits {
			p.line("units %s;", Q(t.Units))
		}
		if t.Default != nil {
			p.line("default %s;", Q(*t.Default))
		}
		p.close()
	}
	for _, g := range b.Groupings {
		p.open("grouping %s", g.Name)
		p.body(&g.Body)
		p.close()
	}
	for _, n := range b.Nodes {
		p.node(n)
	}
}

func (p *pr) typ(t *TypeRef) {
	simple := t.Range == "" && t.Length == "" && len(t.Patterns) == 0 && len(t.Posix) == 0 && len(t.Enums) == 0 && len(t.Bits) == 0 && t.FractionDigits == 0 && t.Path == "" && len(t.Union) == 0 && t.Base == ""
	if simple {
		p.line("type %s;", t.Written())
		return
	}
	p.open("type %s", t.Written())
	if t.FractionDigits != 0 {
		p.line("fraction-digits %d;", t.FractionDigits)
	}
	if t.Range != "" {
		p.line("range %s;", Q(t.Range))
	}
	if t.Length != "" {
		p.line("length %s;", Q(t.Length))
	}
	for _, pat := range t.Patterns {
		p.line("pattern %s;", Q(pat))
	}
	for _, pat := range t.Posix {
		p.line("%s:posix-pattern %s;", OCExtPrefix, Q(pat))
	}
	for _, e := range t.Enums {
		if e.Value != nil {
			p.line("enum %s { value %d; }", e.Name, *e.Value)
		} else {
			p.line("enum %s;", e.Name)
		}
	}
	for _, e := range t.Bits {
		if e.Value != nil {
			p.line("bit %s { position %d; }", e.Name, *e.Value)
		} else {
			p.line("bit %s;", e.Name)
		}
	}
	if t.Path != "" {
		p.line("path %s;", Q(t.Path))
	}
	if t.Base != "" {
		p.line("base %s;", t.Base)
	}
	for _, u := range t.Union {
		p.typ(u)
	}
	p.close()
}

func (p *pr) node(n *Node) {
	switch n.Kind {
	case KUses:
		if len(n.IfFeatures) == 0 && len(n.Extras) == 0 {
			p.line("uses %s;", n.Name)
			return
		}
		p.open("uses %s", n.Name)
		for _, f := range n.IfFeatures {
			p.line("if-feature %s;", f)
		}
		p.extras(n.Extras)
		p.close()
		return
	case KInput, KOutput:
		p.open("%s", n.Kind)
	default:
		p.open("%s %s", n.Kind, n.Name)
	}
	if n.Desc != "" {
		p.line("description %s;", Q(n.Desc))
	}
	for _, f := range n.IfFeatures {
		p.line("if-feature %s;", f)
	}
	p.extras(n.Extras)
	if n.Key != "" {
		p.line("key %s;", Q(n.Key))
	}
	if n.Type != nil {
		p.typ(n.Type)
	}
	if n.Units != "" {
		p.line("units %s;", Q(n.Units))
	}
	for _, d := range n.Default {
		p.line("default %s;", Q(d))
	}
	if n.Config != nil {
		p.line("config %s;", boolS(*n.Config))
	}
	if n.Mandatory != nil {
		p.line("mandatory %s;", boolS(*n.Mandatory))
	}
	if n.Min != "" {
		p.line("min-elements %s;", n.Min)
	}
	if n.Max != "" {
		p.line("max-elements %s;", n.Max)
	}
	if n.OrderedBy != "" {
		p.line("ordered-by %s;", n.OrderedBy)
	}
	p.body(&n.Body)
	p.close()
}

// Texts renders every module; keys are file names, in the set's order.
func (s *Set) Texts() []Source {
	out := s.ModuleTexts()
	if o := s.OlderText(); o != nil {
		os := s.OlderSubText()
		if s.OlderFirst {
			out = append([]Source{*o, *os}, out...)
			if u := s.OlderUserText(); u != nil {
				out = append(out, *u)
			}
		} else {
			out = append(out, *os, *o)
		}
	}
	return append(out, s.Extra...)
}

// ModuleTexts are the texts of the modules of the set proper, in model order.
func (s *Set) ModuleTexts() []Source {
	var out []Source
	for _, m := range s.Modules {
		out = append(out, Source{Name: m.FileName(), Text: s.layout(m.Text())})
	}
	return out
}

// Source is one YANG source text.
type Source struct {
	Name string `json:"name"`
	Text string `json:"text"`
}

// SortedNames returns the module names sorted.
func (s *Set) SortedNames() []string {
	var n []string
	for _, m := range s.Modules {
		n = append(n, m.Name)
	}
	sort.Strings(n)
	return n
}
