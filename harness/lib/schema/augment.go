package schema

import (
	"fmt"
	"sort"
	"strings"

	"pgregory.net/rapid"

	"verif/lib/ymodel"
	"verif/lib/yref"
)

// Target is a node an augment (or deviation) can address from module From.
type Target struct {
	From   *ymodel.Module
	Path   string // absolute, every step prefixed as seen from From
	Node   *yref.XNode
	Module string // module whose tree holds the node
	InOp   bool   // below rpc/action/notification
	Depth  int
	ViaAug bool // some node on the path was grafted by an augment (CopySteps marks)
}

// WithoutChoiceSteps spells the target's path without the steps that name a choice or a case: a data path, which
// is not a schema path (no node has the node below the choice as its child). ok is false when the path runs through
// no choice or ends in one.
func WithoutChoiceSteps(trees map[string]*yref.Tree, tg Target) (path string, ok bool) {
	t := trees[tg.Module]
	if t == nil || t.Root == nil {
		return "", false
	}
	x := t.Root
	var keep []string
	for _, st := range strings.Split(strings.TrimPrefix(tg.Path, "/"), "/") {
		name := st
		if i := strings.IndexByte(st, ':'); i >= 0 {
			name = st[i+1:]
		}
		var nx *yref.XNode
		switch {
		case name == "input" && x.Input != nil:
			nx = x.Input
		case name == "output" && x.Output != nil:
			nx = x.Output
		default:
			nx = x.Children[name]
		}
		if nx == nil {
			return "", false
		}
		if nx.Kind == ymodel.KChoice || nx.Kind == ymodel.KCase {
			if len(keep) == 0 {
				// the first step selects the tree (by its prefix): it has to stay
				return "", false
			}
			ok = true
		} else {
			keep = append(keep, st)
		}
		x = nx
	}
	if !ok || len(keep) == 0 || x.Kind == ymodel.KChoice || x.Kind == ymodel.KCase {
		// (a path that ends in a choice or case would shrink to the path of an existing node)
		return "", false
	}
	// a grouping used twice puts equal names in several places: the shortened path must name nothing
	y := t.Root
	for _, st := range keep {
		name := st
		if i := strings.IndexByte(st, ':'); i >= 0 {
			name = st[i+1:]
		}
		switch {
		case y == nil:
		case name == "input" && y.Input != nil:
			y = y.Input
		case name == "output" && y.Output != nil:
			y = y.Output
		default:
			y = y.Children[name]
		}
	}
	if y != nil {
		return "", false
	}
	return "/" + strings.Join(keep, "/"), true
}

func prefixFor(set *ymodel.Set, from *ymodel.Module, ns string) (string, bool) {
	owner := set.Owner(from)
	if owner != nil && owner.Name == ns {
		return from.Prefix, true
	}
	for _, im := range from.Imports {
		if im.Module == ns {
			return im.Prefix, true
		}
	}
	return "", false
}

// Targets lists every node of every visible module tree that From can
// address with an RFC-valid absolute path. Nodes at or below an implicit
// case, and unwritten input/output of actions, are left out (outside the
// claims).
func Targets(set *ymodel.Set, trees map[string]*yref.Tree, from *ymodel.Module) []Target {
	return targets(set, trees, from, false)
}

// AllNodes is Targets including implicit case nodes and what lies below them
// (for path lookup, which sees the tree after implicit cases were inserted).
func AllNodes(set *ymodel.Set, trees map[string]*yref.Tree, from *ymodel.Module) []Target {
	return targets(set, trees, from, true)
}

func targets(set *ymodel.Set, trees map[string]*yref.Tree, from *ymodel.Module, implicit bool) []Target {
	var out []Target
	var mods []string
	if o := set.Owner(from); o != nil {
		mods = append(mods, o.Name)
	}
	for _, im := range from.Imports {
		mods = append(mods, im.Module)
	}
	for _, mn := range mods {
		t := trees[mn]
		if t == nil {
			continue
		}
		var walk func(x *yref.XNode, path string, inOp bool, depth int)
		visit := func(c *yref.XNode, name, path string, inOp bool, depth int) {
			if c.Implicit && !implicit {
				return
			}
			p, ok := prefixFor(set, from, c.NS)
			if !ok {
				return
			}
			cp := path + "/" + p + ":" + name
			op := inOp || c.Kind == ymodel.KRPC || c.Kind == ymodel.KAction || c.Kind == ymodel.KNotification
			out = append(out, Target{From: from, Path: cp, Node: c, Module: mn, InOp: op, Depth: depth + 1})
			walk(c, cp, op, depth+1)
		}
		walk = func(x *yref.XNode, path string, inOp bool, depth int) {
			keys := make([]string, 0, len(x.Children))
			for k := range x.Children {
				keys = append(keys, k)
			}
			sort.Strings(keys)
			for _, k := range keys {
				visit(x.Children[k], k, path, inOp, depth)
			}
			if x.Kind == ymodel.KRPC || x.Kind == ymodel.KAction {
				for _, io := range []struct {
					n string
					x *yref.XNode
				}{{"input", x.Input}, {"output", x.Output}} {
					if io.x != nil {
						visit(io.x, io.n, path, true, depth)
					} else if x.Kind == ymodel.KRPC {
						// unwritten input/output of an rpc exists implicitly
						if p, ok := prefixFor(set, from, x.NS); ok {
							out = append(out, Target{From: from, Path: path + "/" + p + ":" + io.n, Node: &yref.XNode{Name: io.n, Kind: io.n, NS: x.NS, Children: map[string]*yref.XNode{}}, Module: mn, InOp: true, Depth: depth + 1})
						}
					}
				}
			}
		}
		walk(t.Root, "", false, 0)
	}
	return out
}

func augmentable(k string) bool {
	switch k {
	case ymodel.KContainer, ymodel.KList, ymodel.KChoice, ymodel.KCase, ymodel.KInput, ymodel.KOutput, ymodel.KNotification:
		return true
	}
	return false
}

var augCounter int

// AugmentIfFeatures: AddAugments may put an if-feature statement on an augment (set by the checks that compare
// if-feature lists).
var AugmentIfFeatures bool

var augMark int

// AugmentExtras: AddAugments may put when, status, reference and extension statements on an augment.
var AugmentExtras bool

// augContent draws the nodes an augment adds to a target of the given kind.
func augContent(t *rapid.T, set *ymodel.Set, from *ymodel.Module, tg Target, tag string) []*ymodel.Node {
	var nodes []*ymodel.Node
	n := rapid.IntRange(1, 2).Draw(t, "aug-nodes")
	for j := 0; j < n; j++ {
		name := fmt.Sprintf("%s%d", tag, j)
		leaf := func(nm string) *ymodel.Node {
			l := &ymodel.Node{Kind: ymodel.KLeaf, Name: nm, Type: &ymodel.TypeRef{Name: rapid.SampledFrom([]string{"string", "int32", "boolean", "uint8"}).Draw(t, "aug-leaf-type")}}
			if !tg.InOp && rapid.IntRange(0, 4).Draw(t, "aug-config") == 0 {
				f := false
				l.Config = &f
			}
			return l
		}
		kinds := []string{"leaf", "leaf", "container", "leaf-list", "uses"}
		if tg.Node.Kind == ymodel.KChoice {
			kinds = []string{"leaf", "case", "case", "container"}
		}
		switch rapid.SampledFrom(kinds).Draw(t, "aug-kind") {
		case "leaf":
			nodes = append(nodes, leaf(name))
		case "leaf-list":
			nodes = append(nodes, &ymodel.Node{Kind: ymodel.KLeafList, Name: name, Type: &ymodel.TypeRef{Name: "string"}})
		case "container":
			c := &ymodel.Node{Kind: ymodel.KContainer, Name: name}
			c.Nodes = append(c.Nodes, leaf(name+"l"))
			if rapid.Bool().Draw(t, "aug-nested") {
				c.Nodes = append(c.Nodes, &ymodel.Node{Kind: ymodel.KContainer, Name: name + "c", Body: ymodel.Body{Nodes: []*ymodel.Node{leaf(name + "cl")}}})
			}
			nodes = append(nodes, c)
		case "case":
			c := &ymodel.Node{Kind: ymodel.KCase, Name: name}
			c.Nodes = append(c.Nodes, leaf(name+"l"))
			nodes = append(nodes, c)
		case "uses":
			b := &yref.GenBinder{Set: set, CompleteT: func(*ymodel.Typedef) bool { return true }, CompleteG: func(*ymodel.Grouping) bool { return true }}
			var cands []ymodel.GroupingCand
			for _, c := range b.GroupingNames(from, []*ymodel.Body{&from.Body}) {
				if !groupingHasConfig(set, from, c.G, map[*ymodel.Grouping]bool{}) || !tg.InOp {
					cands = append(cands, c)
				}
			}
			already := false
			for _, x := range nodes {
				if x.Kind == ymodel.KUses {
					already = true
				}
			}
			if len(cands) == 0 || already {
				nodes = append(nodes, leaf(name))
				break
			}
			nodes = append(nodes, &ymodel.Node{Kind: ymodel.KUses, Name: cands[rapid.IntRange(0, len(cands)-1).Draw(t, "aug-uses")].Written})
		}
	}
	return nodes
}

func groupingHasConfig(set *ymodel.Set, from *ymodel.Module, g *ymodel.Grouping, seen map[*ymodel.Grouping]bool) bool {
	if seen[g] {
		return false
	}
	seen[g] = true
	var walk func(b *ymodel.Body) bool
	walk = func(b *ymodel.Body) bool {
		for _, n := range b.Nodes {
			if n.Config != nil {
				return true
			}
			if n.Kind == ymodel.KUses {
				return true // conservatively: a nested uses may bring config
			}
			if walk(&n.Body) {
				return true
			}
		}
		return false
	}
	return walk(&g.Body)
}

// usesWouldCollide: whether grafting the content into the target would give
// duplicate names (uses of a grouping whose nodes the target already has).
func wouldCollide(set *ymodel.Set, from *ymodel.Module, a *ymodel.Augment, tg Target) bool {
	r := yref.New(set)
	tmp := map[string]*yref.XNode{}
	r.ExpandInto(a.Nodes, yref.Top(from).Push(&a.Body), from, tmp, tg.Node.Kind)
	if len(r.Problems) > 0 {
		return true
	}
	for k := range tmp {
		if tg.Node.Children[k] != nil {
			return true
		}
	}
	return false
}

// AddAugments adds between min and max valid augments to the set, possibly
// chained (targets created by earlier augments), and finally shuffles the
// order of the augment statements inside each module. It returns labels.
func AddAugments(t *rapid.T, set *ymodel.Set, min, max int) map[string]int {
	labels := map[string]int{}
	k := rapid.IntRange(min, max).Draw(t, "augments")
	for i := 0; i < k; i++ {
		r := yref.New(set)
		trees := r.Expand()
		if len(r.Problems) > 0 {
			break
		}
		from := set.Modules[rapid.IntRange(0, len(set.Modules)-1).Draw(t, "augmenting-module")]
		var cands []Target
		for _, tg := range Targets(set, trees, from) {
			if augmentable(tg.Node.Kind) {
				cands = append(cands, tg)
			}
		}
		if len(cands) == 0 {
			continue
		}
		// prefer deep / grafted targets sometimes
		tg := cands[rapid.IntRange(0, len(cands)-1).Draw(t, "target")]
		augCounter++
		a := &ymodel.Augment{Path: tg.Path}
		if rapid.IntRange(0, 4).Draw(t, "own-steps-without-prefix") == 0 {
			// a step without prefix names a node of the augmenting module's own namespace
			if p := strings.ReplaceAll(tg.Path, "/"+from.Prefix+":", "/"); p != tg.Path {
				a.Path = p
				labels["augment/unprefixed-own-steps"]++
			}
		}
		if AugmentIfFeatures && rapid.IntRange(0, 3).Draw(t, "augment-if-feature") == 0 {
			a.IfFeatures = []string{from.FeatureName(8)}
			labels["augment/if-feature"]++
		}
		if AugmentExtras && rapid.IntRange(0, 3).Draw(t, "augment-extras") == 0 {
			a.Extras = ymodel.DrawExtras("augment", from.ExtKeyword(),
				func(l string, n int) int { return rapid.IntRange(0, n-1).Draw(t, l) },
				func(p string) string { augMark++; return fmt.Sprintf("%sa%d", p, augMark) })
			labels["augment/extras"]++
		}
		tag := fmt.Sprintf("a%d%s", i+1, strings.ReplaceAll(from.Name, "-", ""))
		a.Nodes = augContent(t, set, from, tg, tag)
		if wouldCollide(set, from, a, tg) {
			continue
		}
		from.Augments = append(from.Augments, a)
		labels["augment/target-"+tg.Node.Kind]++
		if tg.Module != set.Owner(from).Name {
			labels["augment/other-module"]++
		}
		if from.IsSub {
			labels["augment/from-submodule"]++
		}
		if strings.Contains(tg.Path, ":a") {
			labels["augment/of-augment"]++
		}
		if tg.Node.CopySteps > 0 {
			labels["augment/target-was-copied"]++
		}
	}
	for _, m := range set.Modules {
		if len(m.Augments) > 1 {
			m.Augments = rapid.Permutation(m.Augments).Draw(t, "augment-order")
		}
	}
	return labels
}

// AddLateAugments adds up to max augments whose target is the implicit case of a shorthand choice member or a
// holder below one (RFC 7950 7.9.2: the case exists in the schema tree and in the path). goyang applies such an
// augment after it has inserted the implicit cases. The augments add plain leaves and containers, never depend on
// one another, and their targets are computed before any of them is added.
func AddLateAugments(t *rapid.T, set *ymodel.Set, max int) int {
	r := yref.New(set)
	trees := r.Expand()
	if len(r.Problems) > 0 {
		return 0
	}
	k := rapid.IntRange(0, max).Draw(t, "late-augments")
	added := 0
	used := map[*yref.XNode]bool{}
	for i := 0; i < k; i++ {
		from := set.Modules[rapid.IntRange(0, len(set.Modules)-1).Draw(t, "late-augmenting-module")]
		plain := map[*yref.XNode]bool{}
		for _, x := range Targets(set, trees, from) {
			plain[x.Node] = true
		}
		var cands []Target
		for _, x := range AllNodes(set, trees, from) {
			if plain[x.Node] || used[x.Node] {
				continue
			}
			switch x.Node.Kind {
			case ymodel.KCase:
				// the path of the implicit case of a container or list member names that member as long as
				// the case is not inserted (the library's design): only leaf and leaf-list members are taken
				if !x.Node.Implicit {
					continue
				}
				if m := x.Node.Children[x.Node.Name]; m == nil || m.Kind != ymodel.KLeaf && m.Kind != ymodel.KLeafList {
					continue
				}
				cands = append(cands, x)
			case ymodel.KContainer, ymodel.KList:
				cands = append(cands, x)
			}
		}
		if len(cands) == 0 {
			continue
		}
		tg := cands[rapid.IntRange(0, len(cands)-1).Draw(t, "late-augment-target")]
		used[tg.Node] = true
		tag := fmt.Sprintf("late%d%s", i+1, strings.ReplaceAll(from.Name, "-", ""))
		leaf := func(nm string) *ymodel.Node {
			l := &ymodel.Node{Kind: ymodel.KLeaf, Name: nm, Type: &ymodel.TypeRef{Name: "string"}}
			if !tg.InOp && rapid.IntRange(0, 3).Draw(t, "late-config") == 0 {
				f := false
				l.Config = &f
			}
			return l
		}
		a := &ymodel.Augment{Path: tg.Path, Body: ymodel.Body{Nodes: []*ymodel.Node{leaf(tag + "l")}}}
		if rapid.Bool().Draw(t, "late-container") {
			a.Nodes = append(a.Nodes, &ymodel.Node{Kind: ymodel.KContainer, Name: tag + "c", Body: ymodel.Body{Nodes: []*ymodel.Node{leaf(tag + "cl")}}})
		}
		from.Augments = append(from.Augments, a)
		added++
	}
	return added
}

var chainCounter int

// AddAugmentChain adds two to four new modules that together hang a chain of three to six containers below a plain
// top-level container or list of one module of the set: link i is the child of link i-1, every link is the body
// of an augment of its own, consecutive links may belong to one module (then written in reverse order), and a
// module imports the base module and the chain modules before it; or (to and fro) one new module and its
// submodules take turns in any sequence. The modules' names are a permutation of a small
// pool, so the order in which a processor meets them (by name, by load) has nothing to do with the order of the
// chain. Every set with a chain is valid: each augment's target exists once the links before it are in place.
func AddAugmentChain(t *rapid.T, set *ymodel.Set) map[string]int {
	labels := map[string]int{}
	type base struct {
		m *ymodel.Module
		n *ymodel.Node
	}
	var bases []base
	for _, m := range set.Modules {
		if m.IsSub {
			continue
		}
		for _, n := range m.Nodes {
			if n.Kind == ymodel.KContainer || n.Kind == ymodel.KList {
				bases = append(bases, base{m, n})
			}
		}
	}
	if len(bases) == 0 {
		return labels
	}
	b := bases[rapid.IntRange(0, len(bases)-1).Draw(t, "chain-base")]
	chainCounter++
	k := rapid.IntRange(3, 6).Draw(t, "chain-length")
	link := func(i int) string { return fmt.Sprintf("link%d-%d", chainCounter, i) }
	linkBody := func(i int) []*ymodel.Node {
		return []*ymodel.Node{{Kind: ymodel.KContainer, Name: link(i), Body: ymodel.Body{Nodes: []*ymodel.Node{{Kind: ymodel.KLeaf, Name: link(i) + "l", Type: &ymodel.TypeRef{Name: "string"}}}}}}
	}
	if rapid.Bool().Draw(t, "chain-to-and-fro") {
		// to and fro: one new module and one or two submodules of it take turns, in any sequence (they share a
		// namespace, so each can name the others' links without importing anything but the base module)
		tag := rapid.SampledFrom([]string{"ca", "cz"}).Draw(t, "chain-module-name")
		mod := &ymodel.Module{Name: fmt.Sprintf("%s%d", tag, chainCounter), Prefix: "cx"}
		mod.Namespace = "urn:" + mod.Name
		mod.Imports = []ymodel.Import{{Module: b.m.Name, Prefix: "b0"}}
		texts := []*ymodel.Module{mod}
		for j := rapid.IntRange(1, 2).Draw(t, "chain-submodules"); j > 0; j-- {
			sub := &ymodel.Module{Name: fmt.Sprintf("%s-part%d", mod.Name, j), IsSub: true, BelongsTo: mod.Name, Prefix: "cx"}
			sub.Imports = []ymodel.Import{{Module: b.m.Name, Prefix: "b0"}}
			mod.Includes = append(mod.Includes, sub.Name)
			texts = append(texts, sub)
		}
		path := "/b0:" + b.n.Name
		last := -1
		for i := 0; i < k; i++ {
			o := rapid.IntRange(0, len(texts)-1).Draw(t, "chain-link-owner")
			if o == last && rapid.Bool().Draw(t, "chain-change-hands") {
				o = (o + 1) % len(texts)
			}
			last = o
			a := &ymodel.Augment{Path: path, Body: ymodel.Body{Nodes: linkBody(i)}}
			if rapid.Bool().Draw(t, "chain-written-before") {
				texts[o].Augments = append([]*ymodel.Augment{a}, texts[o].Augments...)
			} else {
				texts[o].Augments = append(texts[o].Augments, a)
			}
			path += "/cx:" + link(i)
		}
		set.Modules = append(set.Modules, texts...)
		labels[fmt.Sprintf("augment-chain/to-and-fro/length-%d", k)]++
		return labels
	}
	nm := rapid.IntRange(2, 4).Draw(t, "chain-modules")
	names := rapid.Permutation([]string{"ca", "cb", "cc", "cd"}).Draw(t, "chain-module-names")[:nm]
	// owners: non-decreasing module positions, every module at least once where the length allows
	owner := make([]int, k)
	for i := range owner {
		owner[i] = i * nm / k
		if i > 0 && owner[i] > owner[i-1] && rapid.IntRange(0, 2).Draw(t, "chain-stay") == 0 {
			owner[i] = owner[i-1]
		}
	}
	mods := make([]*ymodel.Module, nm)
	for j := range mods {
		mods[j] = &ymodel.Module{Name: fmt.Sprintf("%s%d", names[j], chainCounter), Prefix: names[j]}
		mods[j].Namespace = "urn:" + mods[j].Name
		mods[j].Imports = append(mods[j].Imports, ymodel.Import{Module: b.m.Name, Prefix: "b0"})
		for i := 0; i < j; i++ {
			mods[j].Imports = append(mods[j].Imports, ymodel.Import{Module: mods[i].Name, Prefix: names[i]})
		}
	}
	for i := 0; i < k; i++ {
		me := mods[owner[i]]
		path := "/b0:" + b.n.Name
		for j := 0; j < i; j++ {
			path += "/" + names[owner[j]] + ":" + link(j)
		}
		a := &ymodel.Augment{Path: path}
		a.Nodes = linkBody(i)
		// a module's later link is written before its earlier one
		me.Augments = append([]*ymodel.Augment{a}, me.Augments...)
	}
	set.Modules = append(set.Modules, mods...)
	labels[fmt.Sprintf("augment-chain/length-%d", k)]++
	return labels
}
