package schema

import (
	"sort"
	"strings"

	"verif/lib/canon"
	"verif/lib/ev"
	"verif/lib/ymodel"
	"verif/lib/yref"
)

// ErrClass names the kind of a goyang error message for signatures.
func ErrClass(s string) string {
	for _, k := range []string{"unknown type", "unknown prefix", "Duplicate node", "duplicate key", "unknown group", "uses itself", "augment", "bad range", "bad length", "circular", "no such module", "no such submodule", "identity", "deviat", "not found"} {
		if strings.Contains(s, k) {
			return strings.ReplaceAll(strings.ToLower(k), " ", "-")
		}
	}
	return "other"
}

// CompareModules compares the expected with the observed tree of every
// module of the set and reports the first difference per module through
// o.Violate with signature prefix sigPrefix.
func CompareModules(o *ev.Outcome, set *ymodel.Set, obs *Observed, trees map[string]*yref.Tree, d canon.DiffOpts, sigPrefix, clause string) {
	attrs := d.NS || d.ReadOnly || d.Defaults
	names := set.SortedNames()
	sort.Strings(names)
	for _, name := range names {
		m := set.Find(name)
		if m.IsSub {
			continue
		}
		var problems []string
		got := obs.Tree(name, attrs, &problems)
		if got == nil {
			o.Violate(clause, sigPrefix+"/module-missing", "module %s is not in the loaded set", name)
			return
		}
		if len(problems) > 0 {
			o.Violate(clause, sigPrefix+"/accessor-problem", "module %s: %s", name, problems[0])
			return
		}
		yref.Attribute(trees[name])
		if d.NS {
			// the namespace a node must report: that of the module it belongs to
			var fill func(x *yref.XNode)
			fill = func(x *yref.XNode) {
				if x == nil {
					return
				}
				if mm := set.Find(x.NS); mm != nil && !mm.IsSub {
					x.NSURI = mm.Namespace
				}
				for _, c := range x.Children {
					fill(c)
				}
				fill(x.Input)
				fill(x.Output)
			}
			fill(trees[name].Root)
		}
		if df := canon.Diff(trees[name].Root, got, d, "/"+name); df != nil {
			kind := ""
			if x := yref.Paths(trees[name])[strings.TrimPrefix(df.Path, "/"+name)]; x != nil {
				kind = "/" + x.Kind
			}
			o.Violate(clause, sigPrefix+"/"+df.What+kind, "%s", df.String())
			return
		}
	}
}
