// Package schema is the shared harness of the schema-level properties:
// generation of module sets (ymodel + yref binder), loading them into goyang
// in a chosen order, and conversion of the results.
package schema

import (
	"fmt"
	"os"
	"path/filepath"

	"github.com/openconfig/goyang/pkg/yang"
	"pgregory.net/rapid"

	"verif/lib/canon"
	"verif/lib/ev"
	"verif/lib/ymodel"
	"verif/lib/yref"
)

// Generate draws a module set with the given features.
func Generate(t *rapid.T, o ymodel.Opts) (*ymodel.Set, map[string]int) {
	var g *ymodel.Gen
	b := &yref.GenBinder{}
	g = ymodel.NewGen(t, o, b)
	b.Set = g.Set
	b.CompleteT = func(td *ymodel.Typedef) bool { return g.CompleteT[td] }
	b.CompleteG = func(gr *ymodel.Grouping) bool { return g.CompleteG[gr] }
	g.Fill()
	if o.Posix {
		// files that write posix-pattern statements import the module that defines the extension
		any := false
		for _, m := range g.Set.Modules {
			if m.UsesPosix() {
				any = true
				m.Imports = append(m.Imports, ymodel.Import{Module: ymodel.OCExtModule, Prefix: ymodel.OCExtPrefix})
			}
		}
		if any {
			g.Set.Modules = append(g.Set.Modules, &ymodel.Module{Name: ymodel.OCExtModule, Namespace: "http://openconfig.net/yang/openconfig-ext", Prefix: ymodel.OCExtPrefix, ExtDefs: []string{"posix-pattern"}})
			g.Labels["posix-patterns"]++
		}
	}
	if !o.NoOlder && rapid.IntRange(0, 4).Draw(t, "older-revision-too") == 0 {
		var mods []*ymodel.Module
		for _, m := range g.Set.Modules {
			if !m.IsSub {
				mods = append(mods, m)
			}
		}
		m := mods[rapid.IntRange(0, len(mods)-1).Draw(t, "older-of")]
		m.Revisions = []string{"2021-12-31"}
		g.Set.Older, g.Set.OlderFirst = m.Name, rapid.Bool().Draw(t, "older-first")
		g.Labels["older-revision-also-loaded"]++
	}
	if rapid.IntRange(0, 7).Draw(t, "one-line-layout") == 0 {
		g.Set.OneLine = true
		g.Labels["one-line-layout"]++
	}
	return g.Set, g.Labels
}

// Order draws a load order (a permutation of the set's sources).
func Order(t *rapid.T, n int) []int {
	idx := make([]int, n)
	for i := range idx {
		idx[i] = i
	}
	return rapid.Permutation(idx).Draw(t, "load-order")
}

// Sources returns the set's texts in the given order (nil: model order).
func Sources(set *ymodel.Set, order []int) []ymodel.Source {
	if len(set.Extra) > 0 {
		set2 := *set
		set2.Extra = nil
		return append(Sources(&set2, order), set.Extra...)
	}
	if o := set.OlderText(); o != nil {
		// the order is one of the modules of the set; the older revision comes first or last
		set2 := *set
		set2.Older = ""
		srcs := Sources(&set2, order)
		// with it comes the submodule that only the older revision includes: before it or after it
		os := set.OlderSubText()
		if set.OlderFirst {
			srcs = append([]ymodel.Source{*o, *os}, srcs...)
			if u := set.OlderUserText(); u != nil {
				// a module that imports both revisions and augments the older one
				srcs = append(srcs, *u)
			}
			return srcs
		}
		return append(srcs, *os, *o)
	}
	srcs := set.Texts()
	if len(order) != len(srcs) {
		return srcs
	}
	out := make([]ymodel.Source, len(srcs))
	for i, j := range order {
		out[i] = srcs[j]
	}
	return out
}

// Observed is what goyang made of a set.
type Observed struct {
	MS    *yang.Modules
	PErrs []error
	Errs  []error
}

func (o *Observed) Clean() bool { return len(o.PErrs) == 0 && len(o.Errs) == 0 }

func (o *Observed) ErrText() string {
	return fmt.Sprintf("parse: %q process: %q", canon.ErrStrings(o.PErrs), canon.ErrStrings(o.Errs))
}

// Load loads the sources into a fresh Modules and processes them.
func Load(srcs []ymodel.Source, opt func(*yang.Modules)) *Observed {
	ms, p, e := canon.Load(srcs, opt)
	return &Observed{MS: ms, PErrs: p, Errs: e}
}

// Tree converts the tree of the named module.
func (o *Observed) Tree(name string, attrs bool, problems *[]string) *yref.XNode {
	m := o.MS.Modules[name]
	if m == nil {
		m = o.MS.SubModules[name]
	}
	if m == nil {
		return nil
	}
	return canon.Entry(yang.ToEntry(m), canon.Opts{Attrs: attrs}, problems)
}

// PlanFetch picks, in a sixth of the calls, one module of the set that another module imports (with the
// submodules it includes) to be left out of the texts handed over: it waits as a file in a search-path
// directory and is fetched while Process binds the imports. A module that is fetched must be processed like
// one that was handed in. The returned names are Source names; nil = everything is handed over.
func PlanFetch(t *rapid.T, set *ymodel.Set) []string {
	if rapid.IntRange(0, 5).Draw(t, "fetch-one-module") != 0 {
		return nil
	}
	var cands []*ymodel.Module
	for _, m := range set.Modules {
		if m.IsSub || len(m.Revisions) > 0 || set.Older == m.Name {
			continue
		}
		imported := false
		for _, x := range set.Modules {
			if o := set.Owner(x); o == m || (o == nil && x == m) {
				continue
			}
			for _, im := range x.Imports {
				if im.Module == m.Name && im.Revision == "" {
					imported = true
				}
			}
		}
		if imported {
			cands = append(cands, m)
		}
	}
	if len(cands) == 0 {
		return nil
	}
	m := cands[rapid.IntRange(0, len(cands)-1).Draw(t, "fetched-module")]
	names := []string{m.FileName()}
	seen := map[string]bool{m.Name: true}
	var follow func(x *ymodel.Module)
	follow = func(x *ymodel.Module) {
		for _, inc := range x.Includes {
			if s := set.Find(inc); s != nil && !seen[s.Name] {
				seen[s.Name] = true
				names = append(names, s.FileName())
				follow(s)
			}
		}
	}
	follow(m)
	return names
}

// LoadFetched is Load, except that the sources named in fetch are written to a fresh directory on the search
// path instead of being handed over.
func LoadFetched(srcs []ymodel.Source, fetch []string, opt func(*yang.Modules)) *Observed {
	if len(fetch) == 0 {
		return Load(srcs, opt)
	}
	dir, err := ev.MkdirTemp("verif-fetch-")
	if err != nil {
		panic(err)
	}
	defer os.RemoveAll(dir)
	skip := map[string]bool{}
	for _, f := range fetch {
		skip[f] = true
	}
	var handed []ymodel.Source
	for _, s := range srcs {
		if skip[s.Name] {
			if err := os.WriteFile(filepath.Join(dir, s.Name), []byte(s.Text), 0o644); err != nil {
				panic(err)
			}
			continue
		}
		handed = append(handed, s)
	}
	return Load(handed, func(ms *yang.Modules) {
		ms.AddPath(dir)
		if opt != nil {
			opt(ms)
		}
	})
}
