package schema

import (
	"fmt"
	"strings"

	"pgregory.net/rapid"

	"verif/lib/ymodel"
	"verif/lib/yref"
)

func sp(s string) *string { return &s }
func bpp(b bool) *bool    { return &b }

// NewDeviatingModule adds an (empty) module that imports every module of the
// set under fresh prefixes.
func NewDeviatingModule(set *ymodel.Set, name string) *ymodel.Module {
	d := &ymodel.Module{Name: name, Namespace: "urn:" + name, Prefix: "dv"}
	i := 0
	for _, m := range set.Modules {
		if m.IsSub || m.Name == name || len(m.Deviations) > 0 && m.Prefix == "dv" {
			continue
		}
		i++
		d.Imports = append(d.Imports, ymodel.Import{Module: m.Name, Prefix: fmt.Sprintf("i%d", i)})
	}
	set.Modules = append(set.Modules, d)
	return d
}

// validDeviates draws 1-3 deviate statements that are applicable, in
// sequence, to the node as it currently is (the node is updated through the
// reference as we go by the caller).
func drawDeviate(t *rapid.T, x *yref.XNode, mark func() string, allowNotSupported, inOp bool) *ymodel.Deviate {
	type opt struct {
		name string
		mk   func() *ymodel.Deviate
	}
	var opts []opt
	add := func(n string, f func() *ymodel.Deviate) { opts = append(opts, opt{n, f}) }
	isLeaf := x.Kind == ymodel.KLeaf
	isLL := x.Kind == ymodel.KLeafList
	isList := x.Kind == ymodel.KList
	if isLeaf {
		if len(x.Default) == 0 {
			add("add-default", func() *ymodel.Deviate { return &ymodel.Deviate{Kind: "add", Default: sp(mark())} })
		} else {
			add("replace-default", func() *ymodel.Deviate { return &ymodel.Deviate{Kind: "replace", Default: sp(mark())} })
			add("delete-default", func() *ymodel.Deviate { return &ymodel.Deviate{Kind: "delete", Default: sp(x.Default[0])} })
		}
		if x.Mandatory == nil {
			add("add-mandatory", func() *ymodel.Deviate {
				return &ymodel.Deviate{Kind: "add", Mandatory: bpp(rapid.Bool().Draw(t, "mand"))}
			})
		} else {
			add("replace-mandatory", func() *ymodel.Deviate { return &ymodel.Deviate{Kind: "replace", Mandatory: bpp(!*x.Mandatory)} })
			add("delete-mandatory", func() *ymodel.Deviate { return &ymodel.Deviate{Kind: "delete", Mandatory: bpp(*x.Mandatory)} })
		}
	}
	if isLeaf || isLL {
		add("replace-type", func() *ymodel.Deviate {
			return &ymodel.Deviate{Kind: "replace", Type: &ymodel.TypeRef{Name: rapid.SampledFrom([]string{"string", "uint16", "boolean", "int64"}).Draw(t, "new-type")}}
		})
		if x.Units == "" {
			add("add-units", func() *ymodel.Deviate { return &ymodel.Deviate{Kind: "add", Units: "u" + mark()} })
		} else {
			add("replace-units", func() *ymodel.Deviate {
				if rapid.IntRange(0, 5).Draw(t, "empty-units") == 0 {
					return &ymodel.Deviate{Kind: "replace", EmptyUnits: true}
				}
				return &ymodel.Deviate{Kind: "replace", Units: "u" + mark()}
			})
		}
	}
	if isLL {
		add("add-default-leaf-list", func() *ymodel.Deviate { return &ymodel.Deviate{Kind: "add", Default: sp(mark())} })
		if len(x.Default) > 0 {
			add("replace-default-leaf-list", func() *ymodel.Deviate { return &ymodel.Deviate{Kind: "replace", Default: sp(mark())} })
		}
	}
	if isLL || isList {
		if x.Min == 0 {
			add("add-min", func() *ymodel.Deviate {
				return &ymodel.Deviate{Kind: "add", Min: fmt.Sprint(1 + rapid.IntRange(0, 3).Draw(t, "minv"))}
			})
		} else {
			add("replace-min", func() *ymodel.Deviate { return &ymodel.Deviate{Kind: "replace", Min: fmt.Sprint(x.Min + 1)} })
			add("delete-min", func() *ymodel.Deviate { return &ymodel.Deviate{Kind: "delete", Min: fmt.Sprint(x.Min)} })
		}
		if x.Max == ^uint64(0) {
			add("add-max", func() *ymodel.Deviate {
				return &ymodel.Deviate{Kind: "add", Max: fmt.Sprint(200 + rapid.IntRange(0, 9).Draw(t, "maxv"))}
			})
		} else {
			add("replace-max", func() *ymodel.Deviate { return &ymodel.Deviate{Kind: "replace", Max: fmt.Sprint(x.Max + 7)} })
			add("delete-max", func() *ymodel.Deviate { return &ymodel.Deviate{Kind: "delete", Max: fmt.Sprint(x.Max)} })
		}
	}
	switch x.Kind {
	case ymodel.KLeaf, ymodel.KLeafList, ymodel.KList, ymodel.KContainer, ymodel.KChoice:
		if inOp {
			break // config has no meaning below rpc, action and notification
		}
		if x.Config == nil {
			add("add-config", func() *ymodel.Deviate { return &ymodel.Deviate{Kind: "add", Config: bpp(false)} })
		} else {
			add("replace-config", func() *ymodel.Deviate { return &ymodel.Deviate{Kind: "replace", Config: bpp(false)} })
			add("delete-config", func() *ymodel.Deviate { return &ymodel.Deviate{Kind: "delete", Config: bpp(*x.Config)} })
		}
	}
	if allowNotSupported {
		add("not-supported", func() *ymodel.Deviate { return &ymodel.Deviate{Kind: "not-supported"} })
	}
	if len(opts) == 0 {
		return nil
	}
	o := opts[rapid.IntRange(0, len(opts)-1).Draw(t, "deviate-kind")]
	d := o.mk()
	return d
}

// DevOpts controls AddDeviations.
type DevOpts struct {
	Modules   int  // number of deviating modules (1..2)
	Max       int  // deviations per module
	OnlyInUse bool // only targets that are copies made by uses (C06)
	// Taken: node paths already deviated by an earlier module with a given
	// property, so that two modules never touch the same property of a node
	NotSupported bool
	OlderEmpty   bool // sometimes load an older revision of the deviating module that holds no deviations
	Operations   bool // also deviate rpc/action/notification, their input/output and what lies below, cases, anydata/anyxml
}

// AddDeviations adds deviating modules with applicable deviations and
// returns labels. trees must be the reference trees of the set *before* the
// deviating modules are added (they are updated as deviations are drawn).
func AddDeviations(t *rapid.T, set *ymodel.Set, o DevOpts) map[string]int {
	labels := map[string]int{}
	mk := 0
	mark := func() string {
		mk++
		if rapid.IntRange(0, 7).Draw(t, "empty-string-value") == 0 {
			return "" // the empty string is a value like any other
		}
		return fmt.Sprintf("dv%d", mk)
	}
	devPaths := map[string][]string{}            // deviating module -> target paths
	touched := map[*yref.XNode]map[string]bool{} // node -> deviating modules that deviate it
	othersTouch := func(x *yref.XNode, self string) bool {
		for m := range touched[x] {
			if m != self {
				return true
			}
		}
		return false
	}
	var subtreeTouchedByOther func(x *yref.XNode, self string) bool
	subtreeTouchedByOther = func(x *yref.XNode, self string) bool {
		if othersTouch(x, self) {
			return true
		}
		for _, c := range x.Children {
			if subtreeTouchedByOther(c, self) {
				return true
			}
		}
		for _, c := range []*yref.XNode{x.Input, x.Output} {
			if c != nil && subtreeTouchedByOther(c, self) {
				return true
			}
		}
		return false
	}
	r := yref.New(set)
	trees := r.Expand()
	if len(r.Problems) > 0 {
		return labels
	}
	for mi := 0; mi < o.Modules; mi++ {
		d := NewDeviatingModule(set, fmt.Sprintf("dev%d", mi+1))
		if o.OlderEmpty && rapid.IntRange(0, 3).Draw(t, "older-empty-revision-of-deviating-module") == 0 {
			// an older revision of the deviating module that deviates nothing is loaded as well: the deviations
			// of the later one are the ones that count
			d.Revisions = []string{"2021-12-31"}
			old := &ymodel.Module{Name: d.Name, Namespace: d.Namespace, Prefix: d.Prefix, Imports: d.Imports, Revisions: []string{"2019-05-05"}}
			set.Extra = append(set.Extra, ymodel.Source{Name: old.FileName(), Text: old.Text()})
			labels["deviation/older-empty-revision"]++
		}
		// the new module has its own (empty) tree
		trees[d.Name] = &yref.Tree{Module: d.Name, Root: &yref.XNode{Name: d.Name, Kind: "module", NS: d.Name, Children: map[string]*yref.XNode{}}}
		// sometimes the deviations are written in a submodule of the deviating module
		holder := d
		holderPrefix := map[string]string{}
		if rapid.IntRange(0, 3).Draw(t, "deviations-in-submodule") == 0 {
			sub := &ymodel.Module{Name: d.Name + "-sub", IsSub: true, BelongsTo: d.Name, Prefix: d.Prefix, Imports: append([]ymodel.Import(nil), d.Imports...)}
			d.Includes = append(d.Includes, sub.Name)
			// submodules come before their module in the set (printing order is irrelevant)
			set.Modules = append(set.Modules, sub)
			trees[sub.Name] = &yref.Tree{Module: sub.Name, Root: &yref.XNode{Name: sub.Name, Kind: "module", NS: d.Name, Children: map[string]*yref.XNode{}}}
			holder = sub
			labels["deviation/in-submodule"]++
			// the submodule may call its imports by other prefixes than its module does: the module's prefixes,
			// handed round by one place, so that each of them means another module here than there
			if len(sub.Imports) >= 2 && rapid.Bool().Draw(t, "submodule-hands-the-prefixes-round") {
				n := len(sub.Imports)
				first := sub.Imports[0].Prefix
				ren := map[string]string{}
				for k := 0; k < n; k++ {
					nw := first
					if k < n-1 {
						nw = d.Imports[k+1].Prefix
					}
					ren[d.Imports[k].Prefix] = nw
					sub.Imports[k].Prefix = nw
				}
				holderPrefix = ren
				labels["deviation/in-submodule-with-other-prefixes"]++
			}
		}
		n := rapid.IntRange(1, o.Max).Draw(t, "deviations")
		for i := 0; i < n; i++ {
			var cands []Target
			// all nodes, also the shorthand members of choices (their paths run through the case that stands
			// around them); the inserted cases themselves are not written anywhere and are left alone
			for _, tg := range AllNodes(set, trees, d) {
				if tg.Node.Implicit {
					continue
				}
				switch tg.Node.Kind {
				case ymodel.KInput, ymodel.KOutput, ymodel.KRPC, ymodel.KAction, ymodel.KNotification, ymodel.KCase, ymodel.KAnydata, ymodel.KAnyxml:
					// nothing to change on these; they can be removed (an unwritten input/output cannot be named)
					if !o.NotSupported || !o.Operations || r.ResolvePath(trees, d, tg.Path) != tg.Node {
						continue
					}
				}
				if tg.InOp && !o.Operations {
					continue
				}
				if o.OnlyInUse && tg.Node.CopySteps == 0 {
					continue
				}
				if othersTouch(tg.Node, d.Name) {
					// a second module may deviate the same node, but then only other properties: keep it simple, allow with 1/3
					if rapid.IntRange(0, 2).Draw(t, "second-module-same-node") != 0 {
						continue
					}
				}
				cands = append(cands, tg)
			}
			if len(cands) == 0 {
				break
			}
			tg := cands[rapid.IntRange(0, len(cands)-1).Draw(t, "deviation-target")]
			dev := &ymodel.Deviation{Path: tg.Path}
			k := rapid.IntRange(1, 3).Draw(t, "deviates")
			otherOwner := othersTouch(tg.Node, d.Name)
			removable := !subtreeTouchedByOther(tg.Node, d.Name)
			for mod, paths := range devPaths {
				if mod == d.Name {
					continue
				}
				for _, q := range paths {
					if q == tg.Path || strings.HasPrefix(q, tg.Path+"/") {
						removable = false // another module deviates this node or something below it (possibly already removed there)
					}
				}
			}
			for j := 0; j < k; j++ {
				dv := drawDeviate(t, tg.Node, mark, o.NotSupported && j == k-1 && removable, tg.InOp)
				if dv == nil {
					break
				}
				if otherOwner && conflictsWithEarlier(set, tg, dv, d) {
					break
				}
				dev.Deviates = append(dev.Deviates, dv)
				// apply to the working tree so that the next statement is drawn for the new state
				r.ApplyDeviation(trees, d, &ymodel.Deviation{Path: tg.Path, Deviates: []*ymodel.Deviate{dv}}, false)
				labels["deviate/"+dv.Kind]++
				if dv.Kind == "not-supported" {
					break
				}
			}
			if len(dev.Deviates) == 0 {
				continue
			}
			if len(dev.Deviates) > 1 {
				labels["deviation/several-deviates"]++
			}
			if otherOwner {
				labels["deviation/second-module-same-node"]++
			}
			if tg.Node.CopySteps > 0 {
				labels["deviation/target-is-copy"]++
			}
			if touched[tg.Node] == nil {
				touched[tg.Node] = map[string]bool{}
			}
			touched[tg.Node][d.Name] = true
			devPaths[d.Name] = append(devPaths[d.Name], tg.Path)
			if holder != d && len(holderPrefix) > 0 {
				// the path as the submodule's text has to spell it
				steps := strings.Split(dev.Path, "/")
				for k, st := range steps {
					if i := strings.IndexByte(st, ':'); i > 0 {
						if nw, ok := holderPrefix[st[:i]]; ok && nw != "" {
							steps[k] = nw + st[i:]
						}
					}
				}
				dev.Path = strings.Join(steps, "/")
			}
			holder.Deviations = append(holder.Deviations, dev)
		}
	}
	return labels
}

// conflictsWithEarlier: would dv touch a property of the node that an
// earlier deviating module has deviated? (Two modules then have no defined
// order.)
func conflictsWithEarlier(set *ymodel.Set, tg Target, dv *ymodel.Deviate, self *ymodel.Module) bool {
	r := yref.New(set)
	_ = r
	for _, m := range set.Modules {
		if m == self {
			continue
		}
		for _, d := range m.Deviations {
			// same node? compare by the node's unique name (names of generated nodes are unique)
			if lastStep(d.Path) != lastStep(tg.Path) {
				continue
			}
			for _, e := range d.Deviates {
				if e.Kind == "not-supported" || dv.Kind == "not-supported" {
					return true
				}
				if (e.Config != nil && dv.Config != nil) || (e.Default != nil && dv.Default != nil) || (e.Mandatory != nil && dv.Mandatory != nil) ||
					(e.Min != "" && dv.Min != "") || (e.Max != "" && dv.Max != "") || ((e.Units != "" || e.EmptyUnits) && (dv.Units != "" || dv.EmptyUnits)) || (e.Type != nil && dv.Type != nil) {
					return true
				}
			}
		}
	}
	return false
}

func lastStep(p string) string {
	for i := len(p) - 1; i >= 0; i-- {
		if p[i] == ':' || p[i] == '/' {
			return p[i+1:]
		}
	}
	return p
}

// UseAfresh makes module m use (at its top level) one grouping visible to it.
func UseAfresh(t *rapid.T, set *ymodel.Set, m *ymodel.Module) {
	if m == nil {
		return
	}
	b := &yref.GenBinder{Set: set, CompleteT: func(*ymodel.Typedef) bool { return true }, CompleteG: func(*ymodel.Grouping) bool { return true }}
	cands := b.GroupingNames(m, []*ymodel.Body{&m.Body})
	if len(cands) == 0 {
		return
	}
	c := cands[rapid.IntRange(0, len(cands)-1).Draw(t, "afresh")]
	m.Nodes = append(m.Nodes, &ymodel.Node{Kind: ymodel.KUses, Name: c.Written})
}
