package schema

import (
	"fmt"
	"strings"

	"pgregory.net/rapid"

	"verif/lib/ymodel"
	"verif/lib/yref"
)

var idPool = []string{"ia", "ib", "ic", "id", "ie"}

// visibleIdentities lists the spellings under which (sub)module m can name
// identities that already exist, strictly (own and included submodules for a
// submodule; the whole module for a module; imports by prefix).
func visibleIdentities(set *ymodel.Set, m *ymodel.Module) []string {
	var out []string
	r := yref.New(set)
	_ = r
	own := []*ymodel.Module{m}
	seen := map[*ymodel.Module]bool{m: true}
	var addSubs func(x *ymodel.Module)
	addSubs = func(x *ymodel.Module) {
		for _, n := range x.Includes {
			if s := set.Find(n); s != nil && !seen[s] {
				seen[s] = true
				own = append(own, s)
				addSubs(s)
			}
		}
	}
	addSubs(m)
	for _, x := range own {
		for _, id := range x.Identities {
			out = append(out, id.Name, m.Prefix+":"+id.Name)
		}
	}
	for _, im := range m.Imports {
		t := set.Find(im.Module)
		if t == nil {
			continue
		}
		mods := []*ymodel.Module{t}
		for _, n := range t.Includes {
			if s := set.Find(n); s != nil {
				mods = append(mods, s)
			}
		}
		for _, x := range mods {
			for _, id := range x.Identities {
				out = append(out, im.Prefix+":"+id.Name)
			}
		}
	}
	return out
}

// AddIdentities adds identities (acyclic, multiple bases, cross-module,
// equal names in different modules) and identityref leaves/typedefs.
func AddIdentities(t *rapid.T, set *ymodel.Set, max int) map[string]int {
	labels := map[string]int{}
	total := 0
	nleaf := 0
	for _, m := range set.Modules {
		owner := set.Owner(m)
		taken := map[string]bool{}
		for _, x := range set.Modules {
			if set.Owner(x) == owner {
				for _, id := range x.Identities {
					taken[id.Name] = true
				}
			}
		}
		k := rapid.IntRange(0, 4).Draw(t, "identities")
		for i := 0; i < k && total < max; i++ {
			name := idPool[rapid.IntRange(0, len(idPool)-1).Draw(t, "identity-name")]
			if taken[name] {
				continue
			}
			taken[name] = true
			id := &ymodel.Identity{Name: name}
			vis := visibleIdentities(set, m)
			if len(vis) > 0 {
				nb := rapid.IntRange(0, 3).Draw(t, "bases")
				if nb == 3 {
					nb = 1
				}
				used := map[string]bool{}
				r := yref.New(set)
				for j := 0; j < nb; j++ {
					b := vis[rapid.IntRange(0, len(vis)-1).Draw(t, "base")]
					key := r.BindIdentity(m, b)
					if key == "" || used[key] {
						continue
					}
					used[key] = true
					id.Bases = append(id.Bases, b)
				}
				if len(id.Bases) > 1 {
					labels["identity/multiple-bases"]++
				}
			}
			m.Identities = append(m.Identities, id)
			total++
		}
		// identityref leaves
		vis := visibleIdentities(set, m)
		if len(vis) > 0 && rapid.Bool().Draw(t, "identityref-leaf") {
			nleaf++
			b := vis[rapid.IntRange(0, len(vis)-1).Draw(t, "ref-base")]
			m.Nodes = append(m.Nodes, &ymodel.Node{Kind: ymodel.KLeaf, Name: fmt.Sprintf("idl%d", nleaf), Type: &ymodel.TypeRef{Name: "identityref", Base: b}})
			labels["identityref-leaf"]++
			if rapid.Bool().Draw(t, "identityref-typedef") {
				tn := fmt.Sprintf("idt%d", nleaf)
				m.Typedefs = append(m.Typedefs, &ymodel.Typedef{Name: tn, Type: &ymodel.TypeRef{Name: "identityref", Base: b}})
				m.Nodes = append(m.Nodes, &ymodel.Node{Kind: ymodel.KLeaf, Name: fmt.Sprintf("idtl%d", nleaf), Type: &ymodel.TypeRef{Name: tn}})
				labels["identityref-typedef"]++
			}
			// a union of identityrefs: two members whose bases are different identities, by preference of one
			// name (equal names in different modules are common here) - two members, whatever the names
			if len(vis) > 1 && rapid.Bool().Draw(t, "identityref-union") {
				bare := func(x string) string { return x[strings.LastIndexByte(x, ':')+1:] }
				// the own prefix and no prefix spell the same identity
				norm := func(x string) string { return strings.TrimPrefix(x, m.Prefix+":") }
				var same, other []string
				for _, x := range vis {
					if norm(x) == norm(b) {
						continue
					}
					other = append(other, x)
					if bare(x) == bare(b) {
						same = append(same, x)
					}
				}
				b2 := ""
				if len(same) > 0 {
					b2 = same[rapid.IntRange(0, len(same)-1).Draw(t, "union-second-base-of-that-name")]
				} else if len(other) > 0 {
					b2 = other[rapid.IntRange(0, len(other)-1).Draw(t, "union-second-base")]
				}
				if b2 != "" {
					m.Nodes = append(m.Nodes, &ymodel.Node{Kind: ymodel.KLeaf, Name: fmt.Sprintf("idu%d", nleaf), Type: &ymodel.TypeRef{Name: "union", Union: []*ymodel.TypeRef{{Name: "identityref", Base: b}, {Name: "string"}, {Name: "identityref", Base: b2}}}})
					labels["identityref-union"]++
				}
			}
		}
	}
	return labels
}
