// Package canon turns goyang's results into the pointer-free comparable
// structures of package yref (walking Dir sorted, RPC input/output, types
// recursively), and compares expected with observed trees.
package canon

import (
	"fmt"
	"sort"
	"strings"

	"github.com/openconfig/goyang/pkg/yang"

	"verif/lib/numref"
	"verif/lib/ymodel"
	"verif/lib/yref"
)

// OwnerName returns the name of the module a node's text belongs to
// (belongs-to target for submodules).
func OwnerName(n yang.Node) string {
	if n == nil {
		return ""
	}
	root := yang.RootNode(n)
	if root == nil {
		return ""
	}
	if root.Kind() == "submodule" && root.BelongsTo != nil {
		return root.BelongsTo.Name
	}
	return root.Name
}

func rangeSet(r yang.YangRange) numref.Set {
	if r == nil {
		return nil
	}
	s := numref.Set{}
	for _, p := range r {
		s = append(s, numref.Iv{Lo: numref.Mantissa(p.Min.Value, p.Min.Negative), Hi: numref.Mantissa(p.Max.Value, p.Max.Negative)})
	}
	return s
}

// Type converts a resolved YangType.
func Type(y *yang.YangType) *yref.XType { return typeAt(y, 0) }

// maxUnionDepth: union members are written out to this depth of nesting. The members of a union typedef are
// shared by everything derived from it, so a chain of n union typedefs with two members each would be written
// out 2^n times (the generators of valid schemas stay far below this depth; the hostile ones do not).
const maxUnionDepth = 8

func typeAt(y *yang.YangType, depth int) *yref.XType {
	if y == nil {
		return nil
	}
	if depth > maxUnionDepth {
		return &yref.XType{Kind: yang.TypeKindToName[y.Kind], Name: y.Name + " (members below this depth are not written out)"}
	}
	x := &yref.XType{
		Kind:           yang.TypeKindToName[y.Kind],
		Name:           y.Name,
		Units:          y.Units,
		HasDefault:     y.HasDefault,
		Default:        y.Default,
		FractionDigits: y.FractionDigits,
		Patterns:       append([]string(nil), y.Pattern...),
		Posix:          append([]string(nil), y.POSIXPattern...),
		Path:           y.Path,
		Range:          rangeSet(y.Range),
		Length:         rangeSet(y.Length),
	}
	if y.Enum != nil {
		x.Enums = y.Enum.NameMap()
		x.EnumByValue = y.Enum.ValueMap()
	}
	if y.Bit != nil {
		x.Bits = y.Bit.NameMap()
		x.BitByValue = y.Bit.ValueMap()
	}
	if y.IdentityBase != nil {
		x.IdentityBase = OwnerName(y.IdentityBase) + ":" + y.IdentityBase.Name
		if r := yang.RootNode(y.IdentityBase); r != nil {
			x.IdentityBaseIn = r.Kind() + " " + r.FullName()
		}
		for _, v := range y.IdentityBase.Values {
			n := v.Name
			if r := yang.RootNode(v); r != nil {
				n = r.Kind() + " " + r.FullName() + ":" + n
			}
			x.IdentityValues = append(x.IdentityValues, n)
		}
	}
	for _, u := range y.Type {
		x.Union = append(x.Union, typeAt(u, depth+1))
	}
	return x
}

func kindOf(e *yang.Entry) string {
	switch e.Kind {
	case yang.LeafEntry:
		if e.ListAttr != nil {
			return ymodel.KLeafList
		}
		return ymodel.KLeaf
	case yang.AnyDataEntry:
		return ymodel.KAnydata
	case yang.AnyXMLEntry:
		return ymodel.KAnyxml
	case yang.CaseEntry:
		return ymodel.KCase
	case yang.ChoiceEntry:
		return ymodel.KChoice
	case yang.InputEntry:
		return ymodel.KInput
	case yang.OutputEntry:
		return ymodel.KOutput
	case yang.NotificationEntry:
		return ymodel.KNotification
	case yang.DirectoryEntry:
		switch e.Node.(type) {
		case *yang.RPC:
			return ymodel.KRPC
		case *yang.Action:
			return ymodel.KAction
		case *yang.Module:
			return "module"
		}
		if e.ListAttr != nil {
			return ymodel.KList
		}
		return ymodel.KContainer
	}
	return "kind-" + e.Kind.String()
}

func tri(t yang.TriState) *bool {
	switch t {
	case yang.TSTrue:
		b := true
		return &b
	case yang.TSFalse:
		b := false
		return &b
	}
	return nil
}

// Opts selects what Entry converts besides structure.
type Opts struct {
	// Attrs: also call ReadOnly, Namespace/InstantiatingModule and
	// DefaultValues on every node. nsOf maps a namespace URI to its module.
	Attrs bool
}

// Entry converts an Entry tree. problems collects anomalies met on the way
// (panics of accessors are not caught here).
func Entry(e *yang.Entry, o Opts, problems *[]string) *yref.XNode {
	x := &yref.XNode{Name: e.Name, Kind: kindOf(e), Config: tri(e.Config), Mandatory: tri(e.Mandatory), Default: append([]string(nil), e.Default...), Key: e.Key, Units: e.Units}
	if e.Type != nil {
		x.Type = Type(e.Type)
	}
	for _, v := range e.Extra["if-feature"] {
		if val, ok := v.(*yang.Value); ok && val != nil {
			x.IfFeatures = append(x.IfFeatures, val.Name)
		} else {
			x.IfFeatures = append(x.IfFeatures, fmt.Sprintf("?%T", v))
		}
	}
	for _, kw := range []string{"must", "when", "status", "reference", "presence"} {
		for _, v := range e.Extra[kw] {
			if x.Extra == nil {
				x.Extra = map[string][]string{}
			}
			switch val := v.(type) {
			case *yang.Value:
				if val != nil {
					x.Extra[kw] = append(x.Extra[kw], val.Name)
					continue
				}
			case *yang.Must:
				if val != nil {
					x.Extra[kw] = append(x.Extra[kw], val.Name)
					continue
				}
			}
			x.Extra[kw] = append(x.Extra[kw], fmt.Sprintf("?%T", v))
		}
	}
	if e.Parent != nil {
		// statements that only a module or submodule can carry have no business on a node
		var hdr []string
		for _, kw := range []string{"belongs-to", "contact", "namespace", "organization", "prefix", "yang-version"} {
			if len(e.Extra[kw]) > 0 {
				hdr = append(hdr, kw)
			}
		}
		if len(hdr) > 0 {
			if x.Extra == nil {
				x.Extra = map[string][]string{}
			}
			x.Extra["header-statements-of-a-module-on-a-node"] = hdr
		}
	}
	exts := e.Exts
	if e.ListAttr != nil && e.Kind == yang.LeafEntry {
		// A leaf-list is converted through a leaf made up from its fields, and both conversions file the
		// statement's extensions: the same statement objects stand at the head of the list twice. Not a matter of
		// any listed property; one occurrence is kept.
		for k := len(exts) / 2; k >= 1; k-- {
			same := true
			for i := 0; i < k; i++ {
				if exts[i] != exts[k+i] {
					same = false
					break
				}
			}
			if same {
				exts = append(append([]*yang.Statement(nil), exts[:k]...), exts[2*k:]...)
				break
			}
		}
	}
	for _, st := range exts {
		if st == nil {
			x.Exts = append(x.Exts, "?nil")
			continue
		}
		x.Exts = append(x.Exts, st.Keyword+" "+st.Argument)
	}
	if e.ListAttr != nil {
		x.HasList = true
		x.Min, x.Max, x.OrdUser = e.ListAttr.MinElements, e.ListAttr.MaxElements, e.ListAttr.OrderedByUser
	}
	if o.Attrs {
		x.ReadOnly = e.ReadOnly()
		if e.Type != nil {
			x.DefaultVal = e.DefaultValues()
		}
		if ns := e.Namespace(); ns != nil {
			x.NSURI = ns.Name
		}
		im, err := e.InstantiatingModule()
		if err != nil {
			*problems = append(*problems, fmt.Sprintf("InstantiatingModule(%s): %v", e.Path(), err))
			x.NS = "?"
		} else {
			x.NS = im
		}
	}
	if _, isCase := e.Node.(*yang.Case); isCase && e.Kind == yang.CaseEntry {
		// an inserted case shares the statement of its only child
		if len(e.Dir) == 1 {
			for _, c := range e.Dir {
				if c.Node != nil && e.Node.Statement() == c.Node.Statement() {
					x.Implicit = true
				}
			}
		}
	}
	if e.Dir != nil {
		x.Children = map[string]*yref.XNode{}
		keys := make([]string, 0, len(e.Dir))
		for k := range e.Dir {
			keys = append(keys, k)
		}
		sort.Strings(keys)
		for _, k := range keys {
			c := e.Dir[k]
			if c == nil {
				*problems = append(*problems, "nil child "+k)
				continue
			}
			cx := Entry(c, o, problems)
			if c.Name != k {
				*problems = append(*problems, fmt.Sprintf("child filed under %q is named %q", k, c.Name))
			}
			x.Children[k] = cx
		}
	}
	if e.RPC != nil {
		if e.RPC.Input != nil {
			x.Input = Entry(e.RPC.Input, o, problems)
		}
		if e.RPC.Output != nil {
			x.Output = Entry(e.RPC.Output, o, problems)
		}
	}
	return x
}

// DiffOpts says which attributes are compared.
type DiffOpts struct {
	Types    bool
	NS       bool
	ReadOnly bool
	Defaults bool // DefaultVal
	// IfFeatures: compare the if-feature lists (own statements, then those of the uses/augment statements that
	// placed the node); implicit cases are not compared
	IfFeatures bool
	// Stmts: compare the uninterpreted statements (must, when, status, reference, presence) and the extension
	// statements, each list being the node's own statements followed by those of the uses/augment statements that
	// placed it; implicit cases are not compared
	Stmts bool
	// SkipImplicitCaseNS: do not compare the namespace of implicit case nodes
	SkipImplicitCaseNS bool
}

// D is a difference: where, what (a short class for signatures), and text.
type D struct {
	Path   string
	What   string
	Detail string
}

func (d *D) String() string { return d.Path + ": " + d.What + ": " + d.Detail }

func emptyIO(x *yref.XNode) bool {
	return x == nil || (len(x.Children) == 0)
}

// Diff returns the first difference between the expected and the observed
// tree, or nil.
func Diff(want, got *yref.XNode, o DiffOpts, path string) *D {
	if want.Kind != got.Kind {
		return &D{path, "kind", fmt.Sprintf("expected %s, observed %s", want.Kind, got.Kind)}
	}
	// an implicit case has no text of its own and so no config of its own
	if !eqBool(want.Config, got.Config) {
		return &D{path, "config", fmt.Sprintf("expected %s, observed %s", bs(want.Config), bs(got.Config))}
	}
	if !eqBool(want.Mandatory, got.Mandatory) {
		return &D{path, "mandatory", fmt.Sprintf("expected %s, observed %s", bs(want.Mandatory), bs(got.Mandatory))}
	}
	if fmt.Sprint(want.Default) != fmt.Sprint(got.Default) {
		return &D{path, "default", fmt.Sprintf("expected %q, observed %q", want.Default, got.Default)}
	}
	if want.Units != got.Units {
		return &D{path, "units", fmt.Sprintf("expected %q, observed %q", want.Units, got.Units)}
	}
	if want.Key != got.Key {
		return &D{path, "key", fmt.Sprintf("expected %q, observed %q", want.Key, got.Key)}
	}
	if want.HasList != got.HasList {
		return &D{path, "list-attributes-presence", fmt.Sprintf("expected %v, observed %v", want.HasList, got.HasList)}
	}
	if want.HasList && (want.Min != got.Min || want.Max != got.Max || want.OrdUser != got.OrdUser) {
		return &D{path, "list-attributes", fmt.Sprintf("expected min %d max %d user %v, observed min %d max %d user %v", want.Min, want.Max, want.OrdUser, got.Min, got.Max, got.OrdUser)}
	}
	if o.Types {
		if d := DiffType(want.Type, got.Type); d != "" {
			return &D{path, "type/" + strings.SplitN(d, ":", 2)[0], d}
		}
	}
	if o.NS && want.NS != got.NS && !(o.SkipImplicitCaseNS && want.Implicit) {
		return &D{path, "namespace", fmt.Sprintf("expected module %s, observed %s", want.NS, got.NS)}
	}
	if o.NS && want.NSURI != "" && want.NSURI != got.NSURI && !(o.SkipImplicitCaseNS && want.Implicit) {
		return &D{path, "namespace-uri", fmt.Sprintf("expected %s (module %s), Namespace() reports %q", want.NSURI, want.NS, got.NSURI)}
	}
	if o.ReadOnly && want.ReadOnly != got.ReadOnly {
		return &D{path, "read-only", fmt.Sprintf("expected %v, observed %v", want.ReadOnly, got.ReadOnly)}
	}
	if o.Defaults && want.Type != nil && fmt.Sprint(want.DefaultVal) != fmt.Sprint(got.DefaultVal) {
		return &D{path, "default-values", fmt.Sprintf("expected %q, observed %q", want.DefaultVal, got.DefaultVal)}
	}
	if o.IfFeatures && !want.Implicit && fmt.Sprint(want.IfFeatures) != fmt.Sprint(got.IfFeatures) {
		return &D{path, "if-features", fmt.Sprintf("expected %v, observed %v", want.IfFeatures, got.IfFeatures)}
	}
	if o.Stmts && !want.Implicit && want.StmtsString() != got.StmtsString() {
		return &D{path, "statements", fmt.Sprintf("expected %s, observed %s", want.StmtsString(), got.StmtsString())}
	}
	if (want.Children == nil) != (got.Children == nil) {
		return &D{path, "child-map-presence", fmt.Sprintf("expected child map %v, observed %v", want.Children != nil, got.Children != nil)}
	}
	keys := map[string]bool{}
	for k := range want.Children {
		keys[k] = true
	}
	for k := range got.Children {
		keys[k] = true
	}
	sorted := make([]string, 0, len(keys))
	for k := range keys {
		sorted = append(sorted, k)
	}
	sort.Strings(sorted)
	for _, k := range sorted {
		w, g := want.Children[k], got.Children[k]
		switch {
		case w == nil:
			return &D{path + "/" + k, "extra-node", fmt.Sprintf("observed %s %s is not expected", g.Kind, k)}
		case g == nil:
			return &D{path + "/" + k, "missing-node", fmt.Sprintf("expected %s %s is absent", w.Kind, k)}
		}
		if d := Diff(w, g, o, path+"/"+k); d != nil {
			return d
		}
	}
	for _, io := range []struct {
		n    string
		w, g *yref.XNode
	}{{"input", want.Input, got.Input}, {"output", want.Output, got.Output}} {
		switch {
		case emptyIO(io.w) && emptyIO(io.g):
		case io.w == nil:
			return &D{path + "/" + io.n, "extra-node", "observed " + io.n + " with children is not expected"}
		case io.g == nil:
			return &D{path + "/" + io.n, "missing-node", "expected " + io.n + " is absent"}
		default:
			if d := Diff(io.w, io.g, o, path+"/"+io.n); d != nil {
				return d
			}
		}
	}
	return nil
}

func eqBool(a, b *bool) bool {
	if a == nil || b == nil {
		return a == b
	}
	return *a == *b
}

func bs(b *bool) string {
	if b == nil {
		return "unset"
	}
	return fmt.Sprint(*b)
}

// DiffType compares two folded types; "" when equal. The text starts with
// the field name followed by a colon.
func DiffType(w, g *yref.XType) string {
	switch {
	case w == nil && g == nil:
		return ""
	case w == nil:
		return "presence: observed a type where none is expected"
	case g == nil:
		return "presence: no resolved type"
	}
	if w.Kind != g.Kind {
		return fmt.Sprintf("kind: expected %s, observed %s (type %s)", w.Kind, g.Kind, g.Name)
	}
	if w.Name != g.Name {
		return fmt.Sprintf("name: expected %s, observed %s", w.Name, g.Name)
	}
	if w.Units != g.Units {
		return fmt.Sprintf("units: expected %q, observed %q", w.Units, g.Units)
	}
	if w.HasDefault != g.HasDefault || w.Default != g.Default {
		return fmt.Sprintf("default: expected %v %q, observed %v %q", w.HasDefault, w.Default, g.HasDefault, g.Default)
	}
	if w.FractionDigits != g.FractionDigits {
		return fmt.Sprintf("fraction-digits: expected %d, observed %d", w.FractionDigits, g.FractionDigits)
	}
	if fmt.Sprint(w.Patterns) != fmt.Sprint(g.Patterns) {
		return fmt.Sprintf("pattern: expected %q, observed %q", w.Patterns, g.Patterns)
	}
	if fmt.Sprint(w.Posix) != fmt.Sprint(g.Posix) {
		return fmt.Sprintf("posix-pattern: expected %q, observed %q", w.Posix, g.Posix)
	}
	if !eqMap(w.Enums, g.Enums) {
		return fmt.Sprintf("enum: expected %v, observed %v", w.Enums, g.Enums)
	}
	if !eqMap(w.Bits, g.Bits) {
		return fmt.Sprintf("bit: expected %v, observed %v", w.Bits, g.Bits)
	}
	if w.Path != g.Path {
		return fmt.Sprintf("path: expected %q, observed %q", w.Path, g.Path)
	}
	if w.IdentityBase != g.IdentityBase {
		return fmt.Sprintf("identity-base: expected %q, observed %q", w.IdentityBase, g.IdentityBase)
	}
	if (w.Range == nil) != (g.Range == nil) || (w.Range != nil && !numref.Equal(numref.Normalize(g.Range), w.Range)) {
		return fmt.Sprintf("range: expected %v, observed %v", w.Range, g.Range)
	}
	if (w.Length == nil) != (g.Length == nil) || (w.Length != nil && !numref.Equal(numref.Normalize(g.Length), w.Length)) {
		return fmt.Sprintf("length: expected %v, observed %v", w.Length, g.Length)
	}
	if len(w.Union) != len(g.Union) {
		return fmt.Sprintf("union: expected %d members, observed %d", len(w.Union), len(g.Union))
	}
	for i := range w.Union {
		if d := DiffType(w.Union[i], g.Union[i]); d != "" {
			return "union-member/" + d
		}
	}
	return ""
}

func eqMap(a, b map[string]int64) bool {
	if len(a) != len(b) {
		return false
	}
	for k, v := range a {
		if w, ok := b[k]; !ok || w != v {
			return false
		}
	}
	return true
}

// Load parses the sources into a fresh Modules in the given order and
// processes them. It returns the parse errors (per source) and the Process
// errors.
func Load(srcs []ymodel.Source, opt func(*yang.Modules)) (*yang.Modules, []error, []error) {
	ms := yang.NewModules()
	if opt != nil {
		opt(ms)
	}
	var perrs []error
	for _, s := range srcs {
		if err := ms.Parse(s.Text, s.Name); err != nil {
			perrs = append(perrs, err)
		}
	}
	if len(perrs) > 0 {
		return ms, perrs, nil
	}
	return ms, nil, ms.Process()
}

// ErrStrings renders errors.
func ErrStrings(errs []error) []string {
	out := make([]string, len(errs))
	for i, e := range errs {
		out[i] = e.Error()
	}
	return out
}
