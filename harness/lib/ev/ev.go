// Package ev is the common runner of the property checks: it drives a replay
// tier, an exhaustive enumeration and a rapid-generated random tier through
// one oracle, classifies the result against the known-findings ledger, counts
// what was covered and writes a partial evidence record that cmd/vrun merges.
package ev

import (
	"encoding/binary"
	"encoding/json"
	"fmt"
	"hash/fnv"
	"os"
	"path/filepath"
	"regexp"
	"runtime"
	"runtime/debug"
	"sort"
	"strconv"
	"strings"
	"testing"
	"time"

	"pgregory.net/rapid"
)

// Violation is one violated clause of a property.
type Violation struct {
	Clause string `json:"clause"`
	Detail string `json:"detail"`
	// Sig is a short stable string naming what failed (clause, call site or
	// node kind, construction) without concrete names or numbers.
	Sig string `json:"signature"`
}

// Outcome is what an oracle returns for one case.
type Outcome struct {
	Violations []Violation
	// NonTrivial says whether the case satisfies the property's stated
	// non-triviality rule.
	NonTrivial bool
	// Key identifies the case for the distinct count (hashed); empty means
	// the JSON encoding of the case is used.
	Key string
	// Classes are generator/oracle labels counted in the evidence.
	Classes []string
	// OutOfClaim, when non-empty, names the rule by which the case was not
	// judged.
	OutOfClaim string
	// Sample overrides what is stored as a sample (default: the case).
	Sample any
}

func (o *Outcome) Violate(clause, sig, format string, args ...any) {
	o.Violations = append(o.Violations, Violation{Clause: clause, Sig: sig, Detail: fmt.Sprintf(format, args...)})
}

// Class files the case under a class (once per case, however often it is called).
func (o *Outcome) Class(c string) {
	for _, x := range o.Classes {
		if x == c {
			return
		}
	}
	o.Classes = append(o.Classes, c)
}

// Spec describes one property check.
type Spec[C any] struct {
	ID          string // "C20"
	Level       string // evidence level, e.g. "exploration"
	Rule        string
	Assumptions []string
	// Check is the oracle. It must be a pure function of the case and the
	// code under test.
	Check func(c C) Outcome
	// Gen draws a random case; nil when there is no random tier.
	Gen func(t *rapid.T) C
	// Enumerate emits the cases of the exhaustive part that belong to the
	// given shard; emit returns false when enumeration should stop. It
	// returns whether the enumeration of that shard's share was complete.
	Enumerate func(tier string, shard, shards int, emit func(C) bool) bool
	// EnumNote describes the enumerated space (goes into the evidence).
	EnumNote func(tier string) string
	// Risky: write every case to a scratch file before evaluating it so
	// that the driver can attribute the death of the process to a case.
	Risky bool
	// RiskyCase: like Risky, for the cases it says yes to (checks whose cheap bulk cannot kill the process)
	RiskyCase func(C) bool
	// MaxSamples bounds the number of samples kept (default 8).
	MaxSamples int
	// Extra is called once at the end; what it returns is merged into the
	// coverage object (per shard, summed by the driver when numeric).
	Extra func() map[string]any
}

// Env is the run configuration, read from the environment set by cmd/vrun.
type Env struct {
	Tier      string
	Seed      int64
	Shard     int
	Shards    int
	OutDir    string // partial evidence, scratch
	CorpusDir string
	ReplayDir string
	Replay    string // file to replay (replay mode)
	Ledger    string
}

func getenv(k, d string) string {
	if v := os.Getenv(k); v != "" {
		return v
	}
	return d
}

func ReadEnv(id string) Env {
	lid := strings.ToLower(id)
	root := getenv("VERIF_ROOT", "/verif")
	e := Env{
		Tier:      getenv("VERIF_TIER", "quick"),
		OutDir:    getenv("VERIF_OUT", ""),
		CorpusDir: getenv("VERIF_CORPUS", filepath.Join(root, "corpus", lid)),
		ReplayDir: getenv("VERIF_REPLAYS", filepath.Join(root, "replays", lid)),
		Replay:    os.Getenv("VERIF_REPLAY"),
		Ledger:    getenv("VERIF_LEDGER", filepath.Join(root, "known_findings.json")),
	}
	e.Seed, _ = strconv.ParseInt(getenv("VERIF_SEED", "1"), 10, 64)
	e.Shard, _ = strconv.Atoi(getenv("VERIF_SHARD", "0"))
	e.Shards, _ = strconv.Atoi(getenv("VERIF_SHARDS", "1"))
	if e.Shards < 1 {
		e.Shards = 1
	}
	return e
}

// Ledger is the committed known-findings file.
type Ledger struct {
	Open  []Finding `json:"open"`
	Fixed []Finding `json:"fixed"`
}

type Finding struct {
	Property  string `json:"property"`
	Signature string `json:"signature"` // regular expression, anchored
	What      string `json:"what"`
	Commit    string `json:"commit,omitempty"`
	Input     any    `json:"input,omitempty"`
	re        *regexp.Regexp
}

func LoadLedger(path string) (*Ledger, error) {
	b, err := os.ReadFile(path)
	if err != nil {
		if os.IsNotExist(err) {
			return &Ledger{}, nil
		}
		return nil, err
	}
	var l Ledger
	if err := json.Unmarshal(b, &l); err != nil {
		return nil, fmt.Errorf("%s: %v", path, err)
	}
	for i := range l.Open {
		re, err := regexp.Compile("^(?:" + l.Open[i].Signature + ")$")
		if err != nil {
			return nil, fmt.Errorf("%s: %v", path, err)
		}
		l.Open[i].re = re
	}
	return &l, nil
}

// Known returns the open finding that covers the violation, if any.
func (l *Ledger) Known(prop string, v Violation) *Finding {
	for i := range l.Open {
		f := &l.Open[i]
		if f.Property == prop && f.re.MatchString(v.Sig) {
			return f
		}
	}
	return nil
}

// ReplayFile is the on-disk form of a concrete case.
type ReplayFile struct {
	Property   string          `json:"property"`
	Case       json.RawMessage `json:"case"`
	Violations []Violation     `json:"violations,omitempty"`
	Tier       string          `json:"tier,omitempty"`
	Seed       int64           `json:"seed,omitempty"`
	Note       string          `json:"note,omitempty"`
}

// Partial is what one shard reports to the driver.
type Partial struct {
	Property     string            `json:"property"`
	Shard        int               `json:"shard"`
	Evaluations  int64             `json:"evaluations"`
	Corpus       int64             `json:"corpus_cases"`
	Enumerated   int64             `json:"enumerated_cases"`
	Random       int64             `json:"random_cases"`
	NonTrivial   int64             `json:"nontrivial_evaluations"`
	EnumComplete bool              `json:"enum_complete"`
	HasEnum      bool              `json:"has_enum"`
	EnumNote     string            `json:"enum_note,omitempty"`
	Classes      map[string]int    `json:"classes"`
	OutOfClaim   map[string]int    `json:"excluded_out_of_claim"`
	Known        map[string]int    `json:"excluded_known"`
	KnownWhat    map[string]string `json:"known_what"`
	Samples      []any             `json:"samples"`
	Violations   []ViolationRec    `json:"violations"`
	Extra        map[string]any    `json:"extra,omitempty"`
	Rule         string            `json:"rule"`
	Level        string            `json:"level"`
	Assumptions  []string          `json:"assumptions"`
	WallS        float64           `json:"wall_s"`
	HashFile     string            `json:"hash_file"`
	HashCapped   bool              `json:"hash_capped,omitempty"`
}

type ViolationRec struct {
	Sig    string `json:"signature"`
	Clause string `json:"clause"`
	Detail string `json:"detail"`
	Replay string `json:"replay"`
}

type runner[C any] struct {
	spec    Spec[C]
	env     Env
	ledger  *Ledger
	p       Partial
	hashes  map[uint64]struct{}
	seenSig map[string]bool
	curFile string
	// lastFail is the most recent case with an unexplained violation.
	lastFail     *C
	lastFailViol []Violation
	sampleByCls  map[string]int
	samplePhase  map[string]int
	shown        int
}

func hashKey(s string) uint64 {
	h := fnv.New64a()
	h.Write([]byte(s))
	return h.Sum64()
}

// Guard runs f and converts a panic into a violation of the clause
// "no-panic" with a signature built from the innermost goyang frame.
func Guard(o *Outcome, what string, f func()) (ok bool) {
	defer func() {
		if r := recover(); r != nil {
			stack := string(debug.Stack())
			o.Violations = append(o.Violations, Violation{
				Clause: "no-panic",
				Detail: fmt.Sprintf("%s panicked: %v [%s]", what, r, frames(stack, 5)),
				Sig:    "panic/" + PanicSite(stack) + "/" + panicClass(fmt.Sprint(r)),
			})
			ok = false
		}
	}()
	f()
	return true
}

var frameRE = regexp.MustCompile(`(?m)^github\.com/openconfig/goyang(?:/pkg)?/?([A-Za-z0-9_./()*]+)\(`)

// PanicSite extracts the innermost goyang function from a Go traceback.
func PanicSite(stack string) string {
	m := frameRE.FindStringSubmatch(stack)
	if m == nil {
		return "unknown-site"
	}
	s := m[1]
	// strip closure suffixes such as .func1
	s = regexp.MustCompile(`\.func\d+(\.\d+)*$`).ReplaceAllString(s, "")
	return s
}

func panicClass(msg string) string {
	switch {
	case strings.Contains(msg, "nil pointer dereference"):
		return "nil-deref"
	case strings.Contains(msg, "nil map"):
		return "nil-map-write"
	case strings.Contains(msg, "index out of range"):
		return "index-out-of-range"
	case strings.Contains(msg, "slice bounds out of range"):
		return "slice-bounds"
	case strings.Contains(msg, "reflect"):
		return "reflect"
	case strings.Contains(msg, "interface conversion"):
		return "interface-conversion"
	case strings.Contains(msg, "divide by zero"):
		return "divide-by-zero"
	}
	// first three words, letters only
	f := strings.FieldsFunc(msg, func(r rune) bool { return !(r >= 'a' && r <= 'z' || r >= 'A' && r <= 'Z') })
	if len(f) > 3 {
		f = f[:3]
	}
	return strings.ToLower(strings.Join(f, "-"))
}

// maxHashes bounds the per-shard set of case hashes (memory); beyond it
// distinct_nontrivial is a lower bound, which the evidence says.
const maxHashes = 3 << 20

var scratchDir string

// MkdirTemp makes a scratch directory below the run's output directory (VERIF_OUT, which the driver removes when
// the run is over, also after a worker was killed in the middle of a case) or, without one, below the system's
// temporary directory.
func MkdirTemp(pattern string) (string, error) {
	base := os.Getenv("VERIF_OUT")
	if base != "" {
		if st, err := os.Stat(base); err != nil || !st.IsDir() {
			base = ""
		}
	}
	return os.MkdirTemp(base, pattern)
}

// Setup puts the process into the state every harness process runs in.
func Setup() {
	debug.SetMaxStack(64 << 20)
	if scratchDir == "" {
		d, err := MkdirTemp("verif-empty-")
		if err == nil {
			scratchDir = d
			os.Chdir(d)
		}
	}
}

// Teardown removes the scratch directory.
func Teardown() {
	if scratchDir != "" {
		os.Chdir("/")
		os.RemoveAll(scratchDir)
		scratchDir = ""
	}
}

// Run executes the check described by s inside a Go test.
func Run[C any](t *testing.T, s Spec[C]) {
	Setup()
	defer Teardown()
	env := ReadEnv(s.ID)
	ledger, err := LoadLedger(env.Ledger)
	if err != nil {
		fmt.Printf("INFRA: %v\n", err)
		t.Fatalf("ledger: %v", err)
	}
	if s.MaxSamples == 0 {
		s.MaxSamples = 8
	}
	if s.Level == "" {
		s.Level = "exploration"
	}
	r := &runner[C]{spec: s, env: env, ledger: ledger, hashes: map[uint64]struct{}{}, seenSig: map[string]bool{}, sampleByCls: map[string]int{}, samplePhase: map[string]int{}}
	r.p = Partial{Property: s.ID, Shard: env.Shard, Classes: map[string]int{}, OutOfClaim: map[string]int{}, Known: map[string]int{}, KnownWhat: map[string]string{}, Rule: s.Rule, Level: s.Level, Assumptions: s.Assumptions}
	if env.OutDir != "" {
		r.curFile = filepath.Join(env.OutDir, fmt.Sprintf("shard-%d.current", env.Shard))
	}
	start := time.Now()

	if env.Replay != "" {
		r.replayOne(t, env.Replay, true)
		return
	}

	// 1. replay tier (shard 0 only)
	if env.Shard == 0 {
		files, _ := filepath.Glob(filepath.Join(env.CorpusDir, "*.json"))
		sort.Strings(files)
		for _, f := range files {
			r.replayOne(t, f, false)
		}
	}

	// 2. exhaustive part
	if s.Enumerate != nil {
		r.p.HasEnum = true
		if s.EnumNote != nil {
			r.p.EnumNote = s.EnumNote(env.Tier)
		}
		complete := s.Enumerate(env.Tier, env.Shard, env.Shards, func(c C) bool {
			r.p.Enumerated++
			r.eval(c, "enum")
			return len(r.p.Violations) < 8
		})
		r.p.EnumComplete = complete && len(r.p.Violations) < 8
	}

	// 3. random part
	if s.Gen != nil {
		t.Run("random", func(t *testing.T) {
			rapid.Check(t, func(rt *rapid.T) {
				c := s.Gen(rt)
				r.p.Random++
				if bad := r.eval(c, "random-noreport"); len(bad) > 0 {
					cc := c
					r.lastFail = &cc
					r.lastFailViol = bad
					rt.Fatalf("%s violated: %s: %s [%s]", s.ID, bad[0].Clause, bad[0].Detail, bad[0].Sig)
				}
			})
		})
		if r.lastFail != nil {
			r.report(*r.lastFail, r.lastFailViol, "random")
		}
	}

	if s.Extra != nil {
		r.p.Extra = s.Extra()
	}
	r.p.WallS = time.Since(start).Seconds()
	r.flush()
	if len(r.p.Violations) > 0 {
		t.Fail()
	}
}

func (r *runner[C]) replayOne(t *testing.T, file string, verbose bool) {
	b, err := os.ReadFile(file)
	if err != nil {
		fmt.Printf("INFRA: %v\n", err)
		t.Fatalf("replay: %v", err)
	}
	var rf ReplayFile
	if err := json.Unmarshal(b, &rf); err != nil {
		fmt.Printf("INFRA: %s: %v\n", file, err)
		t.Fatalf("replay %s: %v", file, err)
	}
	var c C
	if err := json.Unmarshal(rf.Case, &c); err != nil {
		fmt.Printf("INFRA: %s: %v\n", file, err)
		t.Fatalf("replay %s: %v", file, err)
	}
	r.p.Corpus++
	if !verbose {
		r.evalFrom(c, "corpus", file)
		return
	}
	// explicit replay: print everything
	if r.curFile != "" {
		os.WriteFile(r.curFile, b, 0o644)
	}
	o := r.spec.Check(c)
	if r.curFile != "" {
		os.Remove(r.curFile)
	}
	if o.OutOfClaim != "" {
		fmt.Printf("OUT-OF-CLAIM: %s\n", o.OutOfClaim)
	}
	if os.Getenv("VERIF_DUMP") != "" && o.Sample != nil {
		dumpSample(o.Sample)
	}
	bad := 0
	for _, v := range o.Violations {
		if f := r.ledger.Known(r.spec.ID, v); f != nil {
			fmt.Printf("KNOWN-FINDING: property=%s %s [%s]\n", r.spec.ID, f.What, v.Sig)
			continue
		}
		bad++
		fmt.Printf("VIOLATED clause=%s signature=%s\n  %s\n", v.Clause, v.Sig, v.Detail)
	}
	if bad > 0 {
		fmt.Printf("VIOLATION property=%s replay=%s\n", r.spec.ID, file)
		t.Fail()
	} else {
		fmt.Printf("REPLAY-OK property=%s file=%s nontrivial=%v\n", r.spec.ID, file, o.NonTrivial)
	}
}

func (r *runner[C]) eval(c C, phase string) []Violation { return r.evalFrom(c, phase, "") }

// evalFrom runs the oracle on c and returns the unexplained violations.
func (r *runner[C]) evalFrom(c C, phase, file string) []Violation {
	if (r.spec.Risky || (r.spec.RiskyCase != nil && r.spec.RiskyCase(c))) && r.curFile != "" {
		if b, err := json.Marshal(c); err == nil {
			rf, _ := json.Marshal(ReplayFile{Property: r.spec.ID, Case: b, Tier: r.env.Tier, Seed: r.env.Seed, Note: "case in flight when the worker died"})
			os.WriteFile(r.curFile, rf, 0o644)
		}
	}
	t0 := time.Now()
	o := r.spec.Check(c)
	if ms, _ := strconv.Atoi(os.Getenv("VERIF_SLOW")); ms > 0 && time.Since(t0) > time.Duration(ms)*time.Millisecond {
		b, _ := json.Marshal(c)
		fmt.Printf("SLOW: %v %.3000s\n", time.Since(t0), b)
	}
	r.p.Evaluations++
	for _, cl := range o.Classes {
		r.p.Classes[cl]++
	}
	if o.OutOfClaim != "" {
		r.p.OutOfClaim[o.OutOfClaim]++
		if show := os.Getenv("VERIF_SHOW_OOC"); show != "" && strings.Contains(o.OutOfClaim, show) && r.shown < 3 {
			r.shown++
			b, _ := json.Marshal(c)
			fmt.Printf("OOC-CASE %s: %s\n", o.OutOfClaim, b)
		}
		return nil
	}
	var bad []Violation
	known := false
	for _, v := range o.Violations {
		if f := r.ledger.Known(r.spec.ID, v); f != nil {
			r.p.Known[v.Sig]++
			r.p.KnownWhat[v.Sig] = f.What
			known = true
			continue
		}
		bad = append(bad, v)
	}
	if o.NonTrivial && !known {
		r.p.NonTrivial++
		key := o.Key
		if key == "" {
			b, _ := json.Marshal(c)
			key = string(b)
		}
		h := hashKey(key)
		if _, dup := r.hashes[h]; !dup {
			// the distinct count is exact up to a cap per shard and a lower bound beyond it
			if len(r.hashes) < maxHashes {
				r.hashes[h] = struct{}{}
			} else {
				r.p.HashCapped = true
			}
			r.sample(c, o, phase)
		}
	}
	if len(bad) > 0 && phase != "random-noreport" {
		r.reportFile(c, bad, phase, file)
	}
	return bad
}

func (r *runner[C]) sample(c C, o Outcome, phase string) {
	// quota per phase so that the random tier is represented too
	quota := map[string]int{"corpus": 1, "enum": r.spec.MaxSamples / 2, "random-noreport": r.spec.MaxSamples, "random": r.spec.MaxSamples}[phase]
	if r.spec.Gen == nil {
		quota = r.spec.MaxSamples
	}
	if r.samplePhase[phase] >= quota || len(r.p.Samples) >= r.spec.MaxSamples+1 {
		return
	}
	cls := phase + ":" + strings.Join(o.Classes, ",")
	if r.sampleByCls[cls] >= 1 {
		return
	}
	r.sampleByCls[cls]++
	r.samplePhase[phase]++
	var s any = c
	if o.Sample != nil {
		s = o.Sample
	}
	r.p.Samples = append(r.p.Samples, s)
}

func (r *runner[C]) report(c C, bad []Violation, phase string) { r.reportFile(c, bad, phase, "") }

func (r *runner[C]) reportFile(c C, bad []Violation, phase, file string) {
	sig := bad[0].Sig
	if r.seenSig[sig] {
		return
	}
	r.seenSig[sig] = true
	path := file
	if path == "" {
		b, _ := json.Marshal(c)
		rf, _ := json.MarshalIndent(ReplayFile{Property: r.spec.ID, Case: b, Violations: bad, Tier: r.env.Tier, Seed: r.env.Seed, Note: "found in phase " + phase}, "", " ")
		os.MkdirAll(r.env.ReplayDir, 0o755)
		path = filepath.Join(r.env.ReplayDir, fmt.Sprintf("%016x.json", hashKey(string(b))))
		os.WriteFile(path, rf, 0o644)
	}
	r.p.Violations = append(r.p.Violations, ViolationRec{Sig: sig, Clause: bad[0].Clause, Detail: bad[0].Detail, Replay: path})
	fmt.Printf("VIOLATED property=%s clause=%s signature=%s\n  %s\n", r.spec.ID, bad[0].Clause, sig, trunc(bad[0].Detail, 2000))
	fmt.Printf("VIOLATION property=%s replay=%s\n", r.spec.ID, path)
}

func trunc(s string, n int) string {
	if len(s) > n {
		return s[:n] + "…"
	}
	return s
}

func (r *runner[C]) flush() {
	if r.curFile != "" {
		os.Remove(r.curFile)
	}
	if r.env.OutDir == "" {
		// stand-alone run: print a summary
		fmt.Printf("SUMMARY %s evaluations=%d nontrivial=%d distinct=%d classes=%v ooc=%v known=%v violations=%d\n",
			r.spec.ID, r.p.Evaluations, r.p.NonTrivial, len(r.hashes), r.p.Classes, r.p.OutOfClaim, r.p.Known, len(r.p.Violations))
		return
	}
	hf := filepath.Join(r.env.OutDir, fmt.Sprintf("shard-%d.hashes", r.env.Shard))
	buf := make([]byte, 0, 8*len(r.hashes))
	for h := range r.hashes {
		buf = binary.LittleEndian.AppendUint64(buf, h)
	}
	os.WriteFile(hf, buf, 0o644)
	r.p.HashFile = hf
	b, _ := json.Marshal(r.p)
	os.WriteFile(filepath.Join(r.env.OutDir, fmt.Sprintf("shard-%d.json", r.env.Shard)), b, 0o644)
}

// NumCPU is exported for specs that want to size internal parallelism.
func NumCPU() int { return runtime.NumCPU() }

// Mix derives a per-purpose seed from the run seed.
func Mix(seed int64, salt uint64) uint64 {
	x := uint64(seed)*0x9E3779B97F4A7C15 + salt*0xBF58476D1CE4E5B9 + 0x94D049BB133111EB
	x ^= x >> 30
	x *= 0xBF58476D1CE4E5B9
	x ^= x >> 27
	x *= 0x94D049BB133111EB
	x ^= x >> 31
	return x
}

// dumpSample prints a sample readably (source texts unescaped).
func dumpSample(s any) {
	b, _ := json.Marshal(s)
	var m map[string]any
	if json.Unmarshal(b, &m) == nil {
		for k, v := range m {
			if k == "sources" || k == "files" {
				if l, ok := v.([]any); ok {
					for _, e := range l {
						if em, ok := e.(map[string]any); ok {
							fmt.Printf("----- %v\n%v\n", em["name"], em["text"])
						}
					}
					continue
				}
			}
			vb, _ := json.Marshal(v)
			fmt.Printf("%s: %s\n", k, vb)
		}
		return
	}
	fmt.Printf("%s\n", b)
}

var frameLineRE = regexp.MustCompile(`(?m)^github\.com/openconfig/goyang[^\n]*\n\t([^\n]*)`)

// frames returns the first n goyang frames of a traceback as "func at file:line".
func frames(stack string, n int) string {
	var out []string
	for _, m := range frameLineRE.FindAllStringSubmatch(stack, n) {
		fn := strings.SplitN(m[0], "(", 2)[0]
		fn = fn[strings.LastIndex(fn, "/")+1:]
		loc := strings.Fields(m[1])
		where := ""
		if len(loc) > 0 {
			where = loc[0][strings.LastIndex(loc[0], "/")+1:]
		}
		out = append(out, fn+" at "+where)
	}
	return strings.Join(out, " < ")
}

// FuzzJudge is used by native fuzz targets: it filters known findings and,
// for an unexplained violation, writes a replay file and fails the test with
// a VIOLATION line in the message (which cmd/vrun picks up).
func FuzzJudge[C any](t *testing.T, id string, c C, o Outcome) {
	if o.OutOfClaim != "" || len(o.Violations) == 0 {
		return
	}
	env := ReadEnv(id)
	ledger, err := LoadLedger(env.Ledger)
	if err != nil {
		t.Skip("ledger unreadable")
	}
	var bad []Violation
	for _, v := range o.Violations {
		if ledger.Known(id, v) == nil {
			bad = append(bad, v)
		}
	}
	if len(bad) == 0 {
		return
	}
	b, _ := json.Marshal(c)
	rf, _ := json.MarshalIndent(ReplayFile{Property: id, Case: b, Violations: bad, Tier: "thorough", Note: "found by native fuzzing"}, "", " ")
	os.MkdirAll(env.ReplayDir, 0o755)
	path := filepath.Join(env.ReplayDir, fmt.Sprintf("fuzz-%016x.json", hashKey(string(b))))
	os.WriteFile(path, rf, 0o644)
	t.Fatalf("VIOLATED property=%s clause=%s signature=%s\n  %s\nVIOLATION property=%s replay=%s", id, bad[0].Clause, bad[0].Sig, trunc(bad[0].Detail, 1500), id, path)
}
