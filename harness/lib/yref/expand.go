package yref

import (
	"fmt"
	"sort"
	"strconv"
	"strings"

	"verif/lib/ymodel"
)

// Tree is the expected instantiated tree of one module or submodule.
type Tree struct {
	Module string
	Root   *XNode // Kind "module"; Children are the top-level nodes
}

type ectx struct {
	ns      string // instantiating module (owner module name)
	steps   int    // copy/merge steps on the way here
	viaUses bool
	viaAug  bool
}

func (r *Ref) expandNodes(nodes []*ymodel.Node, s Scope, c ectx, into map[string]*XNode, parentKind string) {
	for _, n := range nodes {
		switch n.Kind {
		case ymodel.KUses:
			g, gs := r.BindGrouping(s, n.Name)
			if g == nil {
				r.problem("unknown grouping %s in %s", n.Name, s.Mod.Name)
				continue
			}
			if r.usesAct[g] {
				r.problem("grouping %s uses itself", g.Name)
				continue
			}
			r.usesAct[g] = true
			cc := c
			cc.steps++
			cc.viaUses = true
			placed := map[string]*XNode{}
			r.expandNodes(g.Nodes, gs.Push(&g.Body), cc, placed, parentKind)
			delete(r.usesAct, g)
			for k, x := range placed {
				// the conditions on the uses statement reach the nodes it places
				real := x
				if x.Implicit && x.Children[x.Name] != nil {
					real = x.Children[x.Name]
				}
				real.IfFeatures = append(real.IfFeatures[:len(real.IfFeatures):len(real.IfFeatures)], n.IfFeatures...)
				real.AddStmts(n.Extras)
				if into[k] != nil {
					r.problem("duplicate node %s", k)
					continue
				}
				into[k] = x
			}
		default:
			x := r.expandNode(n, s, c)
			if x == nil {
				continue
			}
			if parentKind == ymodel.KChoice && x.Kind != ymodel.KCase {
				x = &XNode{Name: x.Name, Kind: ymodel.KCase, NS: x.NS, Implicit: true, Children: map[string]*XNode{x.Name: x}, CopySteps: x.CopySteps, Src: x.Src, ViaUses: x.ViaUses, ViaAug: x.ViaAug}
			}
			if into[x.Name] != nil {
				r.problem("duplicate node %s", x.Name)
				continue
			}
			into[x.Name] = x
		}
	}
}

func parseU(s string, def uint64) uint64 {
	if s == "" || s == "unbounded" {
		return def
	}
	v, err := strconv.ParseUint(s, 10, 64)
	if err != nil {
		return def
	}
	return v
}

func (r *Ref) expandNode(n *ymodel.Node, s Scope, c ectx) *XNode {
	x := &XNode{Name: n.Name, Kind: n.Kind, NS: c.ns, Config: n.Config, Mandatory: n.Mandatory, CopySteps: c.steps, Src: s.Mod.Name, ViaUses: c.viaUses, ViaAug: c.viaAug, IfFeatures: append([]string(nil), n.IfFeatures...)}
	x.AddStmts(n.Extras)
	inner := s.Push(&n.Body)
	switch n.Kind {
	case ymodel.KLeaf, ymodel.KLeafList:
		if n.Type == nil {
			r.problem("leaf %s without type", n.Name)
			return nil
		}
		x.Type = r.ResolveType(n.Type, s)
		if x.Type == nil {
			return nil
		}
		x.Default = append([]string(nil), n.Default...)
		if n.Kind == ymodel.KLeafList {
			x.HasList = true
			x.Min, x.Max = parseU(n.Min, 0), parseU(n.Max, ^uint64(0))
			x.OrdUser = n.OrderedBy == "user"
		}
		return x
	case ymodel.KAnydata, ymodel.KAnyxml:
		x.Children = map[string]*XNode{}
		return x
	case ymodel.KList:
		x.HasList = true
		x.Key = n.Key
		x.Min, x.Max = parseU(n.Min, 0), parseU(n.Max, ^uint64(0))
		x.OrdUser = n.OrderedBy == "user"
	case ymodel.KChoice:
		x.Default = append([]string(nil), n.Default...)
	case ymodel.KInput, ymodel.KOutput:
		x.Name = n.Kind
	}
	x.Children = map[string]*XNode{}
	var plain []*ymodel.Node
	for _, ch := range n.Nodes {
		switch ch.Kind {
		case ymodel.KInput:
			x.Input = r.expandNode(ch, inner, c)
		case ymodel.KOutput:
			x.Output = r.expandNode(ch, inner, c)
		default:
			plain = append(plain, ch)
		}
	}
	r.expandNodes(plain, inner, c, x.Children, n.Kind)
	return x
}

// Expand computes the expected tree of every module and submodule, with
// augments grafted (to a fixpoint, whatever their order) and implicit cases
// inserted. Deviations are not applied here (see ApplyDeviations).
func (r *Ref) Expand() map[string]*Tree {
	r.CheckTypedefs()
	trees := map[string]*Tree{}
	for _, m := range r.Set.Modules {
		owner := r.Set.Owner(m)
		ns := m.Name
		if owner != nil {
			ns = owner.Name
		}
		root := &XNode{Name: m.Name, Kind: "module", NS: ns, Children: map[string]*XNode{}}
		r.expandNodes(m.Nodes, Top(m), ectx{ns: ns}, root.Children, "module")
		// included submodules contribute their nodes as if written here
		for _, sub := range r.allSubs(m) {
			r.expandNodes(sub.Nodes, Top(sub), ectx{ns: ns, steps: 1}, root.Children, "module")
		}
		trees[m.Name] = &Tree{Module: m.Name, Root: root}
	}
	r.graftAugments(trees)
	return trees
}

type pendingAug struct {
	mod *ymodel.Module
	aug *ymodel.Augment
}

// ResolvePath walks an absolute prefixed schema path as seen from module m.
// Every module tree that instantiates the first step's module is a
// candidate; the path is resolved in the tree of the module the first prefix
// names.
func (r *Ref) ResolvePath(trees map[string]*Tree, from *ymodel.Module, path string) *XNode {
	if !strings.HasPrefix(path, "/") {
		return nil
	}
	steps := strings.Split(path[1:], "/")
	if len(steps) == 0 {
		return nil
	}
	prefix, _ := splitPrefix(steps[0])
	var target *ymodel.Module
	if prefix == "" || prefix == from.Prefix {
		target = r.Set.Owner(from)
	} else {
		target = r.importByPrefix(from, prefix)
	}
	if target == nil || trees[target.Name] == nil {
		return nil
	}
	cur := trees[target.Name].Root
	for _, st := range steps {
		_, name := splitPrefix(st)
		var next *XNode
		switch {
		case cur.Kind == ymodel.KRPC || cur.Kind == ymodel.KAction:
			switch name {
			case "input":
				if cur.Input == nil {
					cur.Input = &XNode{Name: "input", Kind: ymodel.KInput, NS: cur.NS, Children: map[string]*XNode{}}
				}
				next = cur.Input
			case "output":
				if cur.Output == nil {
					cur.Output = &XNode{Name: "output", Kind: ymodel.KOutput, NS: cur.NS, Children: map[string]*XNode{}}
				}
				next = cur.Output
			}
		default:
			next = cur.Children[name]
		}
		if next == nil {
			return nil
		}
		cur = next
	}
	return cur
}

func splitPrefix(s string) (string, string) {
	if i := strings.IndexByte(s, ':'); i >= 0 {
		return s[:i], s[i+1:]
	}
	return "", s
}

func canHaveChildren(k string) bool {
	switch k {
	case ymodel.KContainer, ymodel.KList, ymodel.KChoice, ymodel.KCase, ymodel.KInput, ymodel.KOutput, ymodel.KNotification:
		return true
	}
	return false
}

// graftAugments applies every augment of every (sub)module to the trees of
// all modules that show the target (a submodule's augment is applied in the
// submodule's own tree and in the trees of the modules that include it).
func (r *Ref) graftAugments(trees map[string]*Tree) {
	var pending []pendingAug
	for _, m := range r.Set.Modules {
		for _, a := range m.Augments {
			pending = append(pending, pendingAug{m, a})
		}
	}
	for len(pending) > 0 {
		var rest []pendingAug
		progress := false
		for _, p := range pending {
			if r.graftOne(trees, p) {
				progress = true
			} else {
				rest = append(rest, p)
			}
		}
		pending = rest
		if !progress {
			break
		}
	}
	for _, p := range pending {
		r.problem("augment %s of %s cannot be applied", p.aug.Path, p.mod.Name)
	}
}

func (r *Ref) graftOne(trees map[string]*Tree, p pendingAug) bool {
	target := r.ResolvePath(trees, p.mod, p.aug.Path)
	if target == nil {
		return false
	}
	if !canHaveChildren(target.Kind) {
		r.problem("augment %s of %s: target %s cannot have children", p.aug.Path, p.mod.Name, target.Kind)
		return true // consumed; reported
	}
	owner := r.Set.Owner(p.mod)
	ns := p.mod.Name
	if owner != nil {
		ns = owner.Name
	}
	add := map[string]*XNode{}
	r.expandNodes(p.aug.Nodes, Top(p.mod).Push(&p.aug.Body), ectx{ns: ns, steps: 1, viaAug: true}, add, target.Kind)
	names := make([]string, 0, len(add))
	for k := range add {
		names = append(names, k)
	}
	sort.Strings(names)
	for _, k := range names {
		if target.Children[k] != nil {
			r.problem("augment %s of %s: target already has a child %s", p.aug.Path, p.mod.Name, k)
			continue
		}
		bump(add[k])
		// the conditions on the augment statement reach the nodes it places
		real := add[k]
		if real.Implicit && real.Children[real.Name] != nil {
			real = real.Children[real.Name]
		}
		real.IfFeatures = append(real.IfFeatures[:len(real.IfFeatures):len(real.IfFeatures)], p.aug.IfFeatures...)
		real.AddStmts(p.aug.Extras)
		target.Children[k] = add[k]
	}
	return true
}

func bump(x *XNode) {
	x.CopySteps++
	for _, c := range x.Children {
		bump(c)
	}
	if x.Input != nil {
		bump(x.Input)
	}
	if x.Output != nil {
		bump(x.Output)
	}
}

// Attribute fills the derived attributes (ReadOnly, DefaultVal) of a tree.
func Attribute(t *Tree) {
	var walk func(x *XNode, ro bool, inOutput bool)
	walk = func(x *XNode, ro bool, inOutput bool) {
		if x.Config != nil {
			ro = !*x.Config
		}
		if x.Kind == ymodel.KOutput {
			inOutput = true
		}
		x.ReadOnly = ro || inOutput
		if x.Kind == ymodel.KOutput {
			x.ReadOnly = true
		}
		if inOutput && x.Config != nil {
			// explicit config below an output is ignored by RFC 7950; generators do not produce it
			x.ReadOnly = !*x.Config
		}
		x.DefaultVal = nil
		if len(x.Default) > 0 {
			x.DefaultVal = append([]string(nil), x.Default...)
		} else if x.Type != nil && x.Type.HasDefault {
			switch {
			case x.Kind == ymodel.KLeaf && (x.Mandatory == nil || !*x.Mandatory):
				x.DefaultVal = []string{x.Type.Default}
			case x.Kind == ymodel.KLeafList && x.Min == 0:
				x.DefaultVal = []string{x.Type.Default}
			}
		}
		for _, c := range x.Children {
			walk(c, ro, inOutput)
		}
		if x.Input != nil {
			walk(x.Input, ro, inOutput)
		}
		if x.Output != nil {
			walk(x.Output, ro, true)
		}
	}
	walk(t.Root, false, false)
}

// Paths lists every node of a tree with its slash-separated name path.
func Paths(t *Tree) map[string]*XNode {
	out := map[string]*XNode{}
	var walk func(x *XNode, p string)
	walk = func(x *XNode, p string) {
		for k, c := range x.Children {
			cp := p + "/" + k
			out[cp] = c
			walk(c, cp)
		}
		if x.Input != nil {
			out[p+"/input"] = x.Input
			walk(x.Input, p+"/input")
		}
		if x.Output != nil {
			out[p+"/output"] = x.Output
			walk(x.Output, p+"/output")
		}
	}
	walk(t.Root, "")
	return out
}

// Describe renders a tree compactly (for samples and failure details).
func Describe(x *XNode, indent string) string {
	var b strings.Builder
	var walk func(x *XNode, ind string)
	walk = func(x *XNode, ind string) {
		fmt.Fprintf(&b, "%s%s %s ns=%s", ind, x.Kind, x.Name, x.NS)
		if x.Config != nil {
			fmt.Fprintf(&b, " config=%v", *x.Config)
		}
		if x.Type != nil {
			fmt.Fprintf(&b, " type=%s/%s", x.Type.Name, x.Type.Kind)
		}
		b.WriteByte('\n')
		keys := make([]string, 0, len(x.Children))
		for k := range x.Children {
			keys = append(keys, k)
		}
		sort.Strings(keys)
		for _, k := range keys {
			walk(x.Children[k], ind+"  ")
		}
		if x.Input != nil {
			walk(x.Input, ind+"  ")
		}
		if x.Output != nil {
			walk(x.Output, ind+"  ")
		}
	}
	walk(x, indent)
	return b.String()
}

// ExpandInto expands nodes written at scope s of module from into the map
// (used by generators to pre-check what an augment would add).
func (r *Ref) ExpandInto(nodes []*ymodel.Node, s Scope, from *ymodel.Module, into map[string]*XNode, parentKind string) {
	owner := r.Set.Owner(from)
	ns := from.Name
	if owner != nil {
		ns = owner.Name
	}
	r.expandNodes(nodes, s, ectx{ns: ns}, into, parentKind)
}
