package yref

import (
	"fmt"
	"strings"

	"verif/lib/ymodel"
)

// parentOf finds the parent of the node a path names.
func (r *Ref) parentOf(trees map[string]*Tree, from *ymodel.Module, path string) (*XNode, string) {
	i := strings.LastIndex(path, "/")
	if i <= 0 {
		// top-level node: parent is the module root
		prefix, name := splitPrefix(strings.TrimPrefix(path, "/"))
		var target *ymodel.Module
		if prefix == "" || prefix == from.Prefix {
			target = r.Set.Owner(from)
		} else {
			target = r.importByPrefix(from, prefix)
		}
		if target == nil || trees[target.Name] == nil {
			return nil, ""
		}
		return trees[target.Name].Root, name
	}
	p := r.ResolvePath(trees, from, path[:i])
	_, name := splitPrefix(path[i+1:])
	return p, name
}

func isListKind(x *XNode) bool { return x.Kind == ymodel.KList || x.Kind == ymodel.KLeafList }

// ApplyDeviation applies one deviation of module from to the trees, deviate
// statements in written order (RFC 7950 7.20.3). ignoreNotSupported keeps
// the target of not-supported. Problems are recorded for deviations that
// cannot be applied.
func (r *Ref) ApplyDeviation(trees map[string]*Tree, from *ymodel.Module, d *ymodel.Deviation, ignoreNotSupported bool) {
	target := r.ResolvePath(trees, from, d.Path)
	if target == nil {
		r.problem("deviation %s of %s: missing target", d.Path, from.Name)
		return
	}
	for _, dv := range d.Deviates {
		switch dv.Kind {
		case "not-supported":
			if ignoreNotSupported {
				continue
			}
			p, name := r.parentOf(trees, from, d.Path)
			if p == nil {
				r.problem("deviation %s: no parent", d.Path)
				return
			}
			switch {
			case p.Children[name] == target:
				delete(p.Children, name)
			case p.Input == target:
				p.Input = nil
			case p.Output == target:
				p.Output = nil
			}
			return
		case "add", "replace":
			if dv.Config != nil {
				target.Config = dv.Config
			}
			if dv.Default != nil {
				switch {
				case dv.Kind == "replace":
					target.Default = []string{*dv.Default}
				case target.Kind == ymodel.KLeafList:
					target.Default = append(target.Default, *dv.Default)
				case len(target.Default) != 0:
					r.problem("deviation %s: add default where one exists", d.Path)
				default:
					target.Default = []string{*dv.Default}
				}
			}
			if dv.Mandatory != nil {
				target.Mandatory = dv.Mandatory
			}
			if dv.Min != "" {
				if !isListKind(target) {
					r.problem("deviation %s: min-elements on a non-list", d.Path)
					continue
				}
				target.Min = parseU(dv.Min, 0)
			}
			if dv.Max != "" {
				if !isListKind(target) {
					r.problem("deviation %s: max-elements on a non-list", d.Path)
					continue
				}
				target.Max = parseU(dv.Max, ^uint64(0))
			}
			if dv.Units != "" || dv.EmptyUnits {
				target.Units = dv.Units
			}
			if dv.Type != nil {
				x := r.ResolveType(dv.Type, Top(from))
				if x == nil {
					r.problem("deviation %s: unresolvable replacement type", d.Path)
					continue
				}
				target.Type = x
			}
		case "delete":
			if dv.Config != nil {
				target.Config = nil
			}
			if dv.Default != nil {
				switch {
				case target.Kind == ymodel.KLeafList:
					r.problem("deviation %s: delete default on a leaf-list (unsupported)", d.Path)
				case len(target.Default) == 0:
					r.problem("deviation %s: delete default that is absent", d.Path)
				case target.Default[0] != *dv.Default:
					r.problem("deviation %s: delete default with a different value", d.Path)
				default:
					target.Default = nil
				}
			}
			if dv.Mandatory != nil {
				target.Mandatory = nil
			}
			if dv.Min != "" {
				if !isListKind(target) {
					r.problem("deviation %s: min-elements on a non-list", d.Path)
					continue
				}
				if target.Min != parseU(dv.Min, 0) {
					r.problem("deviation %s: delete min-elements with a different value", d.Path)
				}
				target.Min = 0
			}
			if dv.Max != "" {
				if !isListKind(target) {
					r.problem("deviation %s: max-elements on a non-list", d.Path)
					continue
				}
				if target.Max != parseU(dv.Max, ^uint64(0)) {
					r.problem("deviation %s: delete max-elements with a different value", d.Path)
				}
				target.Max = ^uint64(0)
			}
		default:
			r.problem("deviation %s: unknown deviate kind %s", d.Path, dv.Kind)
		}
	}
}

// ApplyDeviations applies all deviations of the set (module by module, in
// model order; generators only produce deviations from different modules
// that commute).
func (r *Ref) ApplyDeviations(trees map[string]*Tree, ignoreNotSupported bool) {
	for _, m := range r.Set.Modules {
		for _, d := range m.Deviations {
			r.ApplyDeviation(trees, m, d, ignoreNotSupported)
		}
	}
}

// DescribeNode is a one-line description used in failure texts.
func DescribeNode(x *XNode) string {
	return fmt.Sprintf("%s %s default=%q min=%d max=%d", x.Kind, x.Name, x.Default, x.Min, x.Max)
}
