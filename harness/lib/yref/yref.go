// Package yref is the reference semantics over ymodel: lexical binding of
// types, groupings and identities, type folding along derivation chains,
// expansion of uses / include / augment / implicit cases into the expected
// instantiated tree, and the derived attributes (read-only, namespace).
// It never looks at goyang's output.
package yref

import (
	"fmt"
	"math/big"
	"sort"
	"strings"

	"verif/lib/numref"
	"verif/lib/ymodel"
)

// XType is a folded (resolved) type.
type XType struct {
	Kind           string
	Name           string
	Units          string
	HasDefault     bool
	Default        string
	FractionDigits int
	Patterns       []string
	Posix          []string `json:",omitempty"` // posix-pattern arguments, accumulated like Patterns
	Enums          map[string]int64
	Bits           map[string]int64
	// observed only (dumps): the value-to-name views of an enumeration / bits type
	EnumByValue  map[int64]string `json:",omitempty"`
	BitByValue   map[int64]string `json:",omitempty"`
	Path         string
	Union        []*XType
	Range        numref.Set // nil: not a numeric kind
	Length       numref.Set // nil: unrestricted / not applicable
	IdentityBase string     // "module:identity"
	// Observed only (never compared with the reference; for dumps that are compared run against run): the
	// module text that holds the base, by full name, and the values the identityref admits.
	IdentityBaseIn string   `json:",omitempty"`
	IdentityValues []string `json:",omitempty"`
}

// XNode is an expected (or observed) instantiated schema node.
type XNode struct {
	Name string
	Kind string
	NS   string // name of the module whose namespace the node has
	// NSURI: the namespace itself (observed: Entry.Namespace().Name; expected: filled in by the comparing check
	// from the namespace statement of module NS; "" = not compared)
	NSURI     string `json:",omitempty"`
	Config    *bool  // explicit config statement
	Mandatory *bool
	Default   []string
	Type      *XType
	Key       string
	HasList   bool
	Min, Max  uint64
	OrdUser   bool
	Children  map[string]*XNode
	Input     *XNode
	Output    *XNode
	Implicit  bool   // implicit case
	Units     string // Entry.Units (only set by deviations)
	// IfFeatures: the node's own if-feature statements followed by those of every uses and augment statement
	// that placed it (a statement's conditions reach the nodes it puts into the tree directly).
	IfFeatures []string `json:",omitempty"`
	// Extra: the statements goyang keeps without interpreting them (must, when, status, reference, presence), per
	// keyword in the order own statements first, then those of every uses and augment statement that placed the
	// node. Exts: the extension statements ("keyword argument"), in the same order.
	Extra map[string][]string `json:",omitempty"`
	Exts  []string            `json:",omitempty"`
	// observed-only attributes (filled by canon, and by Attribute for the reference)
	ReadOnly   bool
	DefaultVal []string // DefaultValues()
	// Origin describes how the node got here, for non-triviality rules.
	CopySteps int
	// Src is the (sub)module whose text contains the node's statement;
	// ViaUses/ViaAug say whether a uses expansion or an augment placed it.
	Src     string
	ViaUses bool
	ViaAug  bool
}

// AddStmts appends the statements to the node's Extra and Exts (never sharing storage with another node).
func (x *XNode) AddStmts(st []ymodel.Stmt) {
	for _, e := range st {
		if e.IsExt() {
			x.Exts = append(x.Exts[:len(x.Exts):len(x.Exts)], e.Kw+" "+e.Arg)
			continue
		}
		if x.Extra == nil {
			x.Extra = map[string][]string{}
		}
		l := x.Extra[e.Kw]
		x.Extra[e.Kw] = append(l[:len(l):len(l)], e.Arg)
	}
}

// StmtsString renders Extra and Exts for comparison.
func (x *XNode) StmtsString() string {
	keys := make([]string, 0, len(x.Extra))
	for k, v := range x.Extra {
		if len(v) > 0 {
			keys = append(keys, k)
		}
	}
	sort.Strings(keys)
	var b strings.Builder
	for _, k := range keys {
		fmt.Fprintf(&b, "%s=%q ", k, x.Extra[k])
	}
	if len(x.Exts) > 0 {
		fmt.Fprintf(&b, "extensions=%q", x.Exts)
	}
	return b.String()
}

var intKinds = map[string]numref.Iv{}

func bi(s string) *big.Int { v, _ := new(big.Int).SetString(s, 10); return v }

func init() {
	for k, v := range map[string][2]string{
		"int8": {"-128", "127"}, "int16": {"-32768", "32767"}, "int32": {"-2147483648", "2147483647"}, "int64": {"-9223372036854775808", "9223372036854775807"},
		"uint8": {"0", "255"}, "uint16": {"0", "65535"}, "uint32": {"0", "4294967295"}, "uint64": {"0", "18446744073709551615"},
	} {
		intKinds[k] = numref.Iv{Lo: bi(v[0]), Hi: bi(v[1])}
	}
}

// Builtins is the set of built-in type names.
var Builtins = map[string]bool{
	"binary": true, "bits": true, "boolean": true, "decimal64": true, "empty": true, "enumeration": true,
	"identityref": true, "instance-identifier": true, "int8": true, "int16": true, "int32": true, "int64": true,
	"leafref": true, "string": true, "uint8": true, "uint16": true, "uint32": true, "uint64": true, "union": true,
}

// Scope is a lexical position: the chain of bodies from innermost to the
// top level of the (sub)module, and that (sub)module.
type Scope struct {
	Bodies []*ymodel.Body
	Mod    *ymodel.Module
}

func (s Scope) Push(b *ymodel.Body) Scope {
	nb := make([]*ymodel.Body, 0, len(s.Bodies)+1)
	nb = append(nb, b)
	nb = append(nb, s.Bodies...)
	return Scope{Bodies: nb, Mod: s.Mod}
}

func Top(m *ymodel.Module) Scope { return Scope{Bodies: []*ymodel.Body{&m.Body}, Mod: m} }

// Ref holds a set and the memo tables of the resolver.
type Ref struct {
	Set      *ymodel.Set
	tdMemo   map[*ymodel.Typedef]*XType
	tdActive map[*ymodel.Typedef]bool
	tdScope  map[*ymodel.Typedef]Scope
	Problems []string
	usesAct  map[*ymodel.Grouping]bool
}

func New(set *ymodel.Set) *Ref {
	return &Ref{Set: set, tdMemo: map[*ymodel.Typedef]*XType{}, tdActive: map[*ymodel.Typedef]bool{}, tdScope: map[*ymodel.Typedef]Scope{}, usesAct: map[*ymodel.Grouping]bool{}}
}

func (r *Ref) problem(format string, args ...any) {
	r.Problems = append(r.Problems, fmt.Sprintf(format, args...))
}

// includedSubs returns the submodules a (sub)module includes (directly).
func (r *Ref) includedSubs(m *ymodel.Module) []*ymodel.Module {
	var out []*ymodel.Module
	for _, n := range m.Includes {
		if s := r.Set.Find(n); s != nil {
			out = append(out, s)
		}
	}
	return out
}

// allSubs returns every submodule reachable through includes.
func (r *Ref) allSubs(m *ymodel.Module) []*ymodel.Module {
	seen := map[*ymodel.Module]bool{m: true}
	var out []*ymodel.Module
	var walk func(x *ymodel.Module)
	walk = func(x *ymodel.Module) {
		for _, s := range r.includedSubs(x) {
			if !seen[s] {
				seen[s] = true
				out = append(out, s)
				walk(s)
			}
		}
	}
	walk(m)
	return out
}

func (r *Ref) importByPrefix(m *ymodel.Module, prefix string) *ymodel.Module {
	for _, i := range m.Imports {
		if i.Prefix == prefix {
			return r.Set.Find(i.Module)
		}
	}
	return nil
}

// BindTypedef binds a type name lexically. It returns nil when the name is
// not bound.
func (r *Ref) BindTypedef(s Scope, prefix, name string) (*ymodel.Typedef, Scope) {
	if prefix == "" || prefix == s.Mod.Prefix {
		for i, b := range s.Bodies {
			for _, td := range b.Typedefs {
				if td.Name == name {
					return td, Scope{Bodies: s.Bodies[i:], Mod: s.Mod}
				}
			}
		}
		for _, sub := range r.includedSubs(s.Mod) {
			for _, td := range sub.Typedefs {
				if td.Name == name {
					return td, Top(sub)
				}
			}
		}
		return nil, Scope{}
	}
	t := r.importByPrefix(s.Mod, prefix)
	if t == nil {
		return nil, Scope{}
	}
	for _, td := range t.Typedefs {
		if td.Name == name {
			return td, Top(t)
		}
	}
	for _, sub := range r.allSubs(t) {
		for _, td := range sub.Typedefs {
			if td.Name == name {
				return td, Top(sub)
			}
		}
	}
	return nil, Scope{}
}

// BindGrouping binds a grouping name (optionally prefixed) lexically.
func (r *Ref) BindGrouping(s Scope, written string) (*ymodel.Grouping, Scope) {
	prefix, name := "", written
	if i := strings.IndexByte(written, ':'); i >= 0 {
		prefix, name = written[:i], written[i+1:]
	}
	if prefix == "" || prefix == s.Mod.Prefix {
		for i, b := range s.Bodies {
			for _, g := range b.Groupings {
				if g.Name == name {
					return g, Scope{Bodies: s.Bodies[i:], Mod: s.Mod}
				}
			}
		}
		for _, sub := range r.allSubs(s.Mod) {
			for _, g := range sub.Groupings {
				if g.Name == name {
					return g, Top(sub)
				}
			}
		}
		return nil, Scope{}
	}
	t := r.importByPrefix(s.Mod, prefix)
	if t == nil {
		return nil, Scope{}
	}
	for _, g := range t.Groupings {
		if g.Name == name {
			return g, Top(t)
		}
	}
	for _, sub := range r.allSubs(t) {
		for _, g := range sub.Groupings {
			if g.Name == name {
				return g, Top(sub)
			}
		}
	}
	return nil, Scope{}
}

func builtinType(name string) *XType {
	x := &XType{Kind: name, Name: name}
	if iv, ok := intKinds[name]; ok {
		x.Range = numref.Set{iv}
	}
	return x
}

func (x *XType) clone() *XType {
	c := *x
	c.Patterns = append([]string(nil), x.Patterns...)
	c.Posix = append([]string(nil), x.Posix...)
	c.Union = append([]*XType(nil), x.Union...)
	return &c
}

// ResolveType folds a type statement found at scope s. nil means the
// reference is unknown, unresolvable or cyclic (a problem is recorded).
func (r *Ref) ResolveType(t *ymodel.TypeRef, s Scope) *XType {
	var x *XType
	if t.Prefix == "" && Builtins[t.Name] {
		x = builtinType(t.Name)
	} else {
		td, ds := r.BindTypedef(s, t.Prefix, t.Name)
		if td == nil {
			r.problem("unknown type %s in %s", t.Written(), s.Mod.Name)
			return nil
		}
		base := r.resolveTypedef(td, ds)
		if base == nil {
			return nil
		}
		x = base.clone()
	}
	// overlay the restrictions written here
	switch {
	case x.Kind == "decimal64" && x.FractionDigits == 0:
		if t.FractionDigits < 1 || t.FractionDigits > 18 {
			r.problem("decimal64 without valid fraction-digits")
			return nil
		}
		x.FractionDigits = t.FractionDigits
		x.Range = numref.Set{{Lo: bi("-9223372036854775808"), Hi: bi("9223372036854775807")}}
	case t.FractionDigits != 0:
		r.problem("fraction-digits on a type that is not directly decimal64")
		return nil
	}
	if x.Kind == "identityref" && t.Prefix == "" && t.Name == "identityref" {
		if t.Base == "" {
			r.problem("identityref without base")
			return nil
		}
		id := r.BindIdentity(s.Mod, t.Base)
		if id == "" {
			r.problem("identityref base %s unknown", t.Base)
			return nil
		}
		x.IdentityBase = id
	}
	if t.Range != "" {
		if x.Range == nil {
			r.problem("range on non-numeric type")
			return nil
		}
		p := numref.ParseRange(t.Range, x.FractionDigits, x.Kind == "decimal64", x.Range)
		w := numref.Normalize(p.Parts)
		if !p.Syntax || p.Excess || numref.Inverted(p.Parts) || !numref.Subset(w, x.Range) {
			r.problem("bad range %q", t.Range)
			return nil
		}
		x.Range = w
	}
	if t.Length != "" {
		parent := x.Length
		if parent == nil {
			parent = numref.Set{{Lo: big.NewInt(0), Hi: bi("18446744073709551615")}}
		}
		p := numref.ParseRange(t.Length, 0, false, parent)
		w := numref.Normalize(p.Parts)
		if !p.Syntax || numref.Inverted(p.Parts) || !numref.Subset(w, parent) {
			r.problem("bad length %q", t.Length)
			return nil
		}
		x.Length = w
	}
	for _, p := range t.Patterns {
		dup := false
		for _, q := range x.Patterns {
			if q == p {
				dup = true
			}
		}
		if !dup {
			x.Patterns = append(x.Patterns, p)
		}
	}
	for _, p := range t.Posix {
		dup := false
		for _, q := range x.Posix {
			if q == p {
				dup = true
			}
		}
		if !dup {
			x.Posix = append(x.Posix, p)
		}
	}
	number := func(ms []ymodel.EnumM, min, max *big.Int, dupInvalid bool) map[string]int64 {
		var mm []numref.Member
		for _, e := range ms {
			m := numref.Member{Name: e.Name}
			if e.Value != nil {
				m.Explicit, m.Value = true, fmt.Sprint(*e.Value)
			}
			mm = append(mm, m)
		}
		assign, bad, why := numref.Numbering(mm, min, max, dupInvalid)
		if bad >= 0 {
			r.problem("bad enum/bit member: %s", why)
			return nil
		}
		out := map[string]int64{}
		for i, m := range mm {
			out[m.Name] = assign[i].Int64()
		}
		return out
	}
	if len(t.Enums) > 0 {
		x.Enums = number(t.Enums, big.NewInt(-1<<31), big.NewInt(1<<31-1), true)
		if x.Enums == nil {
			return nil
		}
	}
	if len(t.Bits) > 0 {
		x.Bits = number(t.Bits, big.NewInt(0), big.NewInt(1<<32-1), true)
		if x.Bits == nil {
			return nil
		}
	}
	if t.Path != "" {
		x.Path = t.Path
	}
	if len(t.Union) > 0 {
		x.Union = nil
		for _, u := range t.Union {
			ux := r.ResolveType(u, s)
			if ux == nil {
				return nil
			}
			x.Union = append(x.Union, ux)
		}
	}
	return x
}

func (r *Ref) resolveTypedef(td *ymodel.Typedef, s Scope) *XType {
	if x, ok := r.tdMemo[td]; ok {
		return x
	}
	if r.tdActive[td] {
		r.problem("typedef %s is cyclic", td.Name)
		return nil
	}
	r.tdActive[td] = true
	x := r.ResolveType(td.Type, s)
	delete(r.tdActive, td)
	if x != nil {
		x = x.clone()
		x.Name = td.Name
		if td.Units != "" || td.EmptyUnits {
			x.Units = td.Units
		}
		if td.Default != nil {
			x.HasDefault, x.Default = true, *td.Default
		}
	}
	r.tdMemo[td] = x
	return x
}

// CheckTypedefs resolves every typedef of the set (as a loader must) so that
// problems inside unused typedefs are found.
func (r *Ref) CheckTypedefs() {
	for _, m := range r.Set.Modules {
		var walk func(b *ymodel.Body, s Scope)
		walk = func(b *ymodel.Body, s Scope) {
			for _, td := range b.Typedefs {
				r.resolveTypedef(td, s)
			}
			for _, g := range b.Groupings {
				walk(&g.Body, s.Push(&g.Body))
			}
			for _, n := range b.Nodes {
				walk(&n.Body, s.Push(&n.Body))
			}
		}
		walk(&m.Body, Top(m))
		for _, a := range m.Augments {
			walk(&a.Body, Top(m).Push(&a.Body))
		}
	}
	// every grouping is checked even if it is never used
	for _, m := range r.Set.Modules {
		var walk func(b *ymodel.Body, s Scope)
		walk = func(b *ymodel.Body, s Scope) {
			for _, g := range b.Groupings {
				gs := s.Push(&g.Body)
				keep := len(r.Problems)
				scratch := map[string]*XNode{}
				r.expandNodes(g.Nodes, gs, ectx{ns: m.Name}, scratch, "grouping")
				_ = keep
				walk(&g.Body, gs)
			}
			for _, n := range b.Nodes {
				walk(&n.Body, s.Push(&n.Body))
			}
		}
		walk(&m.Body, Top(m))
	}
}

// ---------------------------------------------------------------------------
// identities

// BindIdentity resolves a base reference written in module m to
// "owner-module:name", or "" when unknown.
func (r *Ref) BindIdentity(m *ymodel.Module, written string) string {
	prefix, name := "", written
	if i := strings.IndexByte(written, ':'); i >= 0 {
		prefix, name = written[:i], written[i+1:]
	}
	target := r.Set.Owner(m)
	if prefix != "" && prefix != m.Prefix {
		target = r.importByPrefix(m, prefix)
	}
	if target == nil {
		return ""
	}
	if r.hasIdentity(target, name) {
		return target.Name + ":" + name
	}
	return ""
}

func (r *Ref) hasIdentity(owner *ymodel.Module, name string) bool {
	for _, m := range append([]*ymodel.Module{owner}, r.allSubs(owner)...) {
		for _, id := range m.Identities {
			if id.Name == name {
				return true
			}
		}
	}
	return false
}

// IdentityClosure returns, for every identity "module:name", the sorted set
// of identities that reach it through one or more base statements. Problems
// are recorded for undefined bases and cycles.
func (r *Ref) IdentityClosure() map[string][]string {
	direct := map[string][]string{} // base -> derived
	all := map[string]bool{}
	for _, m := range r.Set.Modules {
		owner := r.Set.Owner(m)
		if owner == nil {
			continue
		}
		if m.IsSub && !r.isIncludedBy(owner, m) {
			continue
		}
		for _, id := range m.Identities {
			key := owner.Name + ":" + id.Name
			all[key] = true
			for _, b := range id.Bases {
				bk := r.BindIdentity(m, b)
				if bk == "" {
					r.problem("identity %s: undefined base %s", key, b)
					continue
				}
				direct[bk] = append(direct[bk], key)
			}
		}
	}
	out := map[string][]string{}
	for k := range all {
		seen := map[string]bool{}
		var walk func(x string)
		walk = func(x string) {
			for _, d := range direct[x] {
				if !seen[d] {
					seen[d] = true
					walk(d)
				}
			}
		}
		walk(k)
		if seen[k] {
			r.problem("identity %s: derivation cycle", k)
		}
		var l []string
		for d := range seen {
			l = append(l, d)
		}
		sort.Strings(l)
		out[k] = l
	}
	return out
}

func (r *Ref) isIncludedBy(owner, sub *ymodel.Module) bool {
	for _, s := range r.allSubs(owner) {
		if s == sub {
			return true
		}
	}
	return false
}
