package yref

import (
	"verif/lib/ymodel"
)

// GenBinder implements ymodel.Binder on top of the reference binder, so that
// the generator draws only references that are valid by construction.
type GenBinder struct {
	Set       *ymodel.Set
	CompleteT func(*ymodel.Typedef) bool
	CompleteG func(*ymodel.Grouping) bool
}

func (b *GenBinder) scope(mod *ymodel.Module, chain []*ymodel.Body) Scope {
	return Scope{Bodies: chain, Mod: mod}
}

func firstIv(x *XType) (rlo, rhi, llo, lhi string) {
	if len(x.Range) > 0 {
		rlo, rhi = x.Range[0].Lo.String(), x.Range[0].Hi.String()
	}
	switch x.Kind {
	case "string", "binary":
		if len(x.Length) > 0 {
			llo, lhi = x.Length[0].Lo.String(), x.Length[0].Hi.String()
		} else {
			llo, lhi = "0", "18446744073709551615"
		}
	}
	return
}

func (b *GenBinder) TypedefNames(mod *ymodel.Module, chain []*ymodel.Body) []ymodel.TypedefCand {
	r := New(b.Set)
	s := b.scope(mod, chain)
	var out []ymodel.TypedefCand
	seen := map[string]bool{}
	try := func(prefix, name string) {
		key := prefix + ":" + name
		if seen[key] {
			return
		}
		seen[key] = true
		td, ds := r.BindTypedef(s, prefix, name)
		if td == nil || !b.CompleteT(td) {
			return
		}
		x := r.resolveTypedef(td, ds)
		if x == nil {
			return
		}
		c := ymodel.TypedefCand{Prefix: prefix, Name: name, Kind: x.Kind, FD: x.FractionDigits, Units: x.Units}
		c.RangeLo, c.RangeHi, c.LengthLo, c.LengthHi = firstIv(x)
		c.Multi = len(x.Range) > 1 || len(x.Length) > 1
		out = append(out, c)
	}
	// every name defined anywhere is a candidate spelling
	names := map[string]bool{}
	for _, m := range b.Set.Modules {
		var walk func(bd *ymodel.Body)
		walk = func(bd *ymodel.Body) {
			for _, td := range bd.Typedefs {
				names[td.Name] = true
			}
			for _, g := range bd.Groupings {
				walk(&g.Body)
			}
			for _, n := range bd.Nodes {
				walk(&n.Body)
			}
		}
		walk(&m.Body)
	}
	sorted := sortedKeys(names)
	for _, n := range sorted {
		try("", n)
		try(mod.Prefix, n)
		for _, im := range mod.Imports {
			try(im.Prefix, n)
		}
	}
	return out
}

func (b *GenBinder) GroupingNames(mod *ymodel.Module, chain []*ymodel.Body) []ymodel.GroupingCand {
	r := New(b.Set)
	s := b.scope(mod, chain)
	names := map[string]bool{}
	for _, m := range b.Set.Modules {
		var walk func(bd *ymodel.Body)
		walk = func(bd *ymodel.Body) {
			for _, g := range bd.Groupings {
				names[g.Name] = true
				walk(&g.Body)
			}
			for _, n := range bd.Nodes {
				walk(&n.Body)
			}
		}
		walk(&m.Body)
	}
	var out []ymodel.GroupingCand
	for _, n := range sortedKeys(names) {
		spellings := []string{n, mod.Prefix + ":" + n}
		for _, im := range mod.Imports {
			spellings = append(spellings, im.Prefix+":"+n)
		}
		for _, w := range spellings {
			g, _ := r.BindGrouping(s, w)
			if g != nil && b.CompleteG(g) {
				out = append(out, ymodel.GroupingCand{Written: w, G: g})
			}
		}
	}
	return out
}

func sortedKeys(m map[string]bool) []string {
	out := make([]string, 0, len(m))
	for k := range m {
		out = append(out, k)
	}
	for i := range out {
		for j := i + 1; j < len(out); j++ {
			if out[j] < out[i] {
				out[i], out[j] = out[j], out[i]
			}
		}
	}
	return out
}
