// Package astinfo reads, by reflection over goyang's exported AST structs,
// which substatement keywords each statement keyword admits. The table only
// steers generation (so that most generated trees are accepted and deep); no
// oracle takes an expected verdict from it.
package astinfo

import (
	"reflect"
	"sort"
	"strings"

	"github.com/openconfig/goyang/pkg/yang"
)

// Child describes one admitted substatement.
type Child struct {
	Keyword  string
	Multi    bool   // slice field
	Required bool   // required for every keyword using the struct
	ReqFor   string // required only for this statement keyword (module/submodule)
	Field    string // Go field name
}

// Info describes one statement keyword.
type Info struct {
	Keyword  string
	Type     reflect.Type // struct type
	Children []Child
	byKey    map[string]*Child
	HasExt   bool
}

func (i *Info) Child(k string) *Child { return i.byKey[k] }

var (
	table = map[string]*Info{}
	order []string
)

// Table returns keyword -> Info for every keyword reachable from module.
func Table() map[string]*Info { return table }

// Keywords returns all known keywords, sorted.
func Keywords() []string { return order }

func init() {
	walk("module", reflect.TypeOf(yang.Module{}))
	table["submodule"] = &Info{Keyword: "submodule", Type: table["module"].Type, Children: table["module"].Children, byKey: table["module"].byKey, HasExt: table["module"].HasExt}
	for k := range table {
		order = append(order, k)
	}
	sort.Strings(order)
}

func walk(keyword string, t reflect.Type) {
	if _, ok := table[keyword]; ok {
		return
	}
	info := &Info{Keyword: keyword, Type: t, byKey: map[string]*Child{}}
	table[keyword] = info
	for i := 0; i < t.NumField(); i++ {
		f := t.Field(i)
		tag := f.Tag.Get("yang")
		if tag == "" {
			continue
		}
		parts := strings.Split(tag, ",")
		name := parts[0]
		switch name {
		case "Name", "Statement", "Parent":
			continue
		case "Ext":
			info.HasExt = true
			continue
		}
		c := Child{Keyword: name, Field: f.Name}
		for _, p := range parts[1:] {
			if p == "required" {
				c.Required = true
			} else if strings.HasPrefix(p, "required=") {
				c.ReqFor = strings.TrimPrefix(p, "required=")
			}
		}
		ft := f.Type
		if ft.Kind() == reflect.Slice {
			c.Multi = true
			ft = ft.Elem()
		}
		if ft.Kind() == reflect.Ptr {
			ft = ft.Elem()
		}
		info.Children = append(info.Children, c)
		if ft.Kind() == reflect.Struct {
			walk(name, ft)
		}
	}
	for i := range info.Children {
		info.byKey[info.Children[i].Keyword] = &info.Children[i]
	}
}
