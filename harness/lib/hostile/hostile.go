// Package hostile generates module texts that are wrong, contradictory, cyclic or incomplete in realistic and in
// arbitrary ways: (G1) valid sets from the schema model with statement-level mutations, (G2) keyword soup,
// (G3) parametrised hostile templates. Written for C01; C05, C18 and C19 feed on it too (their oracles hold for
// every text).
package hostile

import (
	"fmt"
	"strings"

	"pgregory.net/rapid"

	"verif/lib/astinfo"
	"verif/lib/rfc6"
	"verif/lib/schema"
	"verif/lib/textgen"
	"verif/lib/ymodel"
)

// MaxChain bounds the long-chain template (checks that run every text many times lower it).
var MaxChain = 2200

type File struct {
	Name string `json:"name"`
	Text string `json:"text"`
}

type Case struct {
	Files         []File `json:"files"`
	IgnoreCirc    bool   `json:"ignore_circular,omitempty"`
	IgnoreNotSupp bool   `json:"ignore_not_supported,omitempty"`
	StoreUses     bool   `json:"store_uses,omitempty"`
	Gen           string `json:"generator,omitempty"`
}

// ---- generators ----

func toNodes(ss []*rfc6.Stmt) []*rfc6.Node {
	var out []*rfc6.Node
	for _, s := range ss {
		out = append(out, &rfc6.Node{Keyword: s.Keyword, HasArg: s.HasArg, Arg: s.Arg, Subs: toNodes(s.Subs)})
	}
	return out
}

func printPlain(t *rapid.T, f []*rfc6.Node) string {
	for _, n := range collect(f) {
		if !rfc6.UnquotedOK(n.Keyword) {
			n.Keyword = "x"
		}
	}
	p := rfc6.NewPrinter(textgen.Chooser{T: t})
	p.Plain = true
	p.Forest(f)
	return p.String()
}

func collect(f []*rfc6.Node) []*rfc6.Node {
	var all []*rfc6.Node
	textgen.Walk(f, nil, func(n, _ *rfc6.Node) { all = append(all, n) })
	return all
}

var metaNames = []string{"Name", "Statement", "Parent", "Ext"}

// mutate applies one statement-level mutation to a forest.
func mutate(t *rapid.T, f []*rfc6.Node) []*rfc6.Node {
	all := collect(f)
	if len(all) == 0 {
		return f
	}
	pick := func(l string) *rfc6.Node { return all[rapid.IntRange(0, len(all)-1).Draw(t, l)] }
	switch rapid.IntRange(0, 8).Draw(t, "mutation") {
	case 0: // delete a substatement
		p := pick("parent")
		if len(p.Subs) > 0 {
			i := rapid.IntRange(0, len(p.Subs)-1).Draw(t, "del")
			p.Subs = append(p.Subs[:i:i], p.Subs[i+1:]...)
		}
	case 1: // duplicate a substatement
		p := pick("parent")
		if len(p.Subs) > 0 {
			p.Subs = append(p.Subs, p.Subs[rapid.IntRange(0, len(p.Subs)-1).Draw(t, "dup")])
		}
	case 2: // move a statement under another parent
		a, b := pick("from"), pick("to")
		if len(a.Subs) > 0 && a != b {
			i := rapid.IntRange(0, len(a.Subs)-1).Draw(t, "mv")
			n := a.Subs[i]
			// avoid making a node its own ancestor
			inside := false
			textgen.Walk([]*rfc6.Node{n}, nil, func(x, _ *rfc6.Node) {
				if x == b {
					inside = true
				}
			})
			if !inside {
				a.Subs = append(a.Subs[:i:i], a.Subs[i+1:]...)
				b.Subs = append(b.Subs, n)
			}
		}
	case 3: // replace a keyword
		n := pick("victim")
		n.Keyword = rapid.SampledFrom(append(append([]string{"foo", "p:ext", "x:y:z"}, metaNames...), astinfo.Keywords()...)).Draw(t, "keyword")
	case 4: // argument refers to itself / a sibling / nothing
		n := pick("victim")
		switch rapid.IntRange(0, 3).Draw(t, "arg") {
		case 0:
			n.HasArg, n.Arg = false, ""
		case 1:
			n.Arg = ""
		case 2:
			o := pick("other")
			n.HasArg, n.Arg = true, o.Arg
		default:
			// the enclosing definition's own name (self reference)
			for _, p := range all {
				for _, ch := range p.Subs {
					if ch == n {
						n.HasArg, n.Arg = true, p.Arg
					}
				}
			}
		}
	case 5: // hostile numeric / odd arguments
		n := pick("victim")
		n.HasArg = true
		n.Arg = rapid.SampledFrom([]string{"-1", "0", "18446744073709551616", "-18446744073709551615", "99999999999999999999999999", "1..", "a:b:c", "/", "//", "../..", "/a:b/", ":", "@", "2020-13-45", "unbounded", "min..max", "true", " "}).Draw(t, "odd-arg")
	case 6: // drop a whole top-level statement
		if len(f) > 1 {
			i := rapid.IntRange(0, len(f)-1).Draw(t, "drop-top")
			f = append(f[:i:i], f[i+1:]...)
		}
	case 7: // rename a definition to collide with a sibling
		p := pick("parent")
		if len(p.Subs) >= 2 {
			a := p.Subs[rapid.IntRange(0, len(p.Subs)-1).Draw(t, "a")]
			b := p.Subs[rapid.IntRange(0, len(p.Subs)-1).Draw(t, "b")]
			a.HasArg, a.Arg = true, b.Arg
		}
	default: // swap two keywords
		a, b := pick("a"), pick("b")
		a.Keyword, b.Keyword = b.Keyword, a.Keyword
	}
	return f
}

// G1: valid sets from the schema model with 1-3 statement-level mutations.
func Mutated(t *rapid.T) Case {
	o := ymodel.DefaultOpts()
	o.Budget = 16
	set, _ := schema.Generate(t, o)
	schema.AddAugments(t, set, 0, 2)
	schema.AddIdentities(t, set, 4)
	if rapid.IntRange(0, 2).Draw(t, "deviations") == 0 {
		schema.AddDeviations(t, set, schema.DevOpts{Modules: 1, Max: 3, NotSupported: true, Operations: true})
	}
	c := Case{Gen: "mutated-valid-set"}
	srcs := set.Texts()
	if len(srcs) > 4 {
		srcs = srcs[len(srcs)-4:]
	}
	k := rapid.IntRange(1, 3).Draw(t, "mutations")
	victim := rapid.IntRange(0, len(srcs)-1).Draw(t, "victim-file")
	for i, s := range srcs {
		text := s.Text
		if i == victim || rapid.IntRange(0, 3).Draw(t, "also") == 0 {
			ref := rfc6.Parse(text)
			if ref.OK {
				f := toNodes(ref.Stmts)
				for j := 0; j < k; j++ {
					f = mutate(t, f)
				}
				text = printPlain(t, f)
			}
		}
		c.Files = append(c.Files, File{Name: s.Name, Text: text})
	}
	if rapid.IntRange(0, 4).Draw(t, "drop-file") == 0 && len(c.Files) > 1 {
		i := rapid.IntRange(0, len(c.Files)-1).Draw(t, "dropped")
		c.Files = append(c.Files[:i:i], c.Files[i+1:]...)
	}
	if rapid.Bool().Draw(t, "shuffle") {
		c.Files = rapid.Permutation(c.Files).Draw(t, "order")
	}
	return c
}

// G2: keyword soup.
func Soup(t *rapid.T) Case {
	kws := append(append([]string{"foo", "p:ext"}, metaNames...), astinfo.Keywords()...)
	var node func(depth int) *rfc6.Node
	n := 0
	node = func(depth int) *rfc6.Node {
		n++
		x := &rfc6.Node{Keyword: rapid.SampledFrom(kws).Draw(t, "kw")}
		if rapid.IntRange(0, 4).Draw(t, "has-arg") > 0 {
			x.HasArg = true
			x.Arg = rapid.SampledFrom([]string{"a", "b", "c", "a", "p:a", "q:b", "/p:a", "/p:a/p:b", "string", "int8", "1", "-1", "true", "2020-01-01", "not-supported", "add", "urn:x", "p", "", "1..10", "../a", "m", "s"}).Draw(t, "arg")
		}
		if depth < 4 && n < 40 {
			k := rapid.IntRange(0, 4).Draw(t, "children")
			for i := 0; i < k; i++ {
				x.Subs = append(x.Subs, node(depth+1))
			}
		}
		return x
	}
	c := Case{Gen: "keyword-soup"}
	nf := rapid.IntRange(1, 3).Draw(t, "files")
	for i := 0; i < nf; i++ {
		root := node(0)
		if rapid.IntRange(0, 3).Draw(t, "module-root") > 0 {
			root.Keyword = rapid.SampledFrom([]string{"module", "module", "submodule"}).Draw(t, "root")
			root.HasArg, root.Arg = true, rapid.SampledFrom([]string{"m", "s", "a"}).Draw(t, "modname")
			// often give it what a (sub)module needs so that it is accepted
			if rapid.Bool().Draw(t, "header") {
				if root.Keyword == "module" {
					root.Subs = append([]*rfc6.Node{{Keyword: "namespace", HasArg: true, Arg: "urn:" + root.Arg}, {Keyword: "prefix", HasArg: true, Arg: "p"}}, root.Subs...)
				} else {
					root.Subs = append([]*rfc6.Node{{Keyword: "belongs-to", HasArg: true, Arg: "m", Subs: []*rfc6.Node{{Keyword: "prefix", HasArg: true, Arg: "p"}}}}, root.Subs...)
				}
			}
		}
		f := []*rfc6.Node{root}
		if rapid.IntRange(0, 5).Draw(t, "second-top") == 0 {
			f = append(f, node(1))
		}
		c.Files = append(c.Files, File{Name: fmt.Sprintf("f%d.yang", i), Text: printPlain(t, f)})
	}
	return c
}

// G3: parametrised hostile templates.
// Templates names every template of Template.
var Templates = []string{"typedef-cycle", "uses-cycle", "identity-cycle", "include-cycle", "import-cycle", "cross-module-typedef-cycle", "cross-module-uses-cycle", "absent", "lone-submodule", "bad-augment", "bad-deviation", "duplicates", "numbers", "leafref-union-cycle", "choice-case-oddities", "fan-in", "header-mix", "long-chain", "enum-unions", "prefix-run", "error-budget", "bits-sharing-a-position", "comment-sequences"}

func Template(t *rapid.T) Case { return TemplateFrom(t, Templates) }

// TemplateFrom is Template restricted to the named templates.
func TemplateFrom(t *rapid.T, names []string) Case {
	c := Case{Gen: "hostile-template"}
	mod := func(name, body string) File {
		return File{Name: name + ".yang", Text: fmt.Sprintf("module %s { namespace \"urn:%s\"; prefix %s; %s }", name, name, name, body)}
	}
	sub := func(name, of, body string) File {
		return File{Name: name + ".yang", Text: fmt.Sprintf("submodule %s { belongs-to %s { prefix %s; } %s }", name, of, of, body)}
	}
	n := rapid.IntRange(1, 4).Draw(t, "cycle-length")
	cyc := func(i int) int { return (i + 1) % n }
	where := rapid.SampledFrom([]string{"", "container w { %s }", "grouping w { %s }", "rpc w { input { %s } }", "list w { key k; leaf k { type string; } %s }", "notification w { %s }"}).Draw(t, "scope")
	wrap := func(s string) string {
		if where == "" {
			return s
		}
		return fmt.Sprintf(where, s)
	}
	switch rapid.SampledFrom(names).Draw(t, "template") {
	case "typedef-cycle":
		var b strings.Builder
		for i := 0; i < n; i++ {
			fmt.Fprintf(&b, "typedef t%d { type t%d; } ", i, cyc(i))
		}
		b.WriteString("leaf l { type t0; } ")
		if rapid.Bool().Draw(t, "union") {
			b.WriteString("typedef u { type union { type u; type string; } } leaf lu { type u; } ")
		}
		c.Files = append(c.Files, mod("m", wrap(b.String())))
	case "uses-cycle":
		var b strings.Builder
		usesSub := func(label string) string {
			// substatements on the uses statements (also on the one that closes the cycle)
			return rapid.SampledFrom([]string{";", ";", " { when \"../x\"; }", " { if-feature f; }", " { status deprecated; reference r; }", " { description d; }", " { when \"a\"; if-feature f; status current; }", " { refine l0 { default x; } }", " { augment l0 { leaf q { type string; } } }"}).Draw(t, label)
		}
		for i := 0; i < n; i++ {
			fmt.Fprintf(&b, "grouping g%d { leaf l%d { type string; } uses g%d%s } ", i, i, cyc(i), usesSub(fmt.Sprintf("uses-sub-%d", i)))
		}
		b.WriteString("feature f; ")
		if rapid.Bool().Draw(t, "used") {
			fmt.Fprintf(&b, "container c { uses g0%s } ", usesSub("uses-sub-c"))
		}
		if rapid.Bool().Draw(t, "nested-self") {
			b.WriteString("grouping outer { grouping inner { uses outer; } uses inner; } uses outer; ")
		}
		c.Files = append(c.Files, mod("m", wrap(b.String())))
	case "identity-cycle":
		var b strings.Builder
		for i := 0; i < n; i++ {
			fmt.Fprintf(&b, "identity i%d { base i%d; } ", i, cyc(i))
		}
		b.WriteString("leaf l { type identityref { base i0; } } typedef ti { type identityref { base i0; } } ")
		c.Files = append(c.Files, mod("m", b.String()))
	case "include-cycle":
		body := ""
		for i := 0; i < n; i++ {
			body += fmt.Sprintf("include s%d; ", i)
		}
		// names that no member of the cycle defines: every lookup has to come back empty-handed, however the
		// includes are followed
		miss := func(label string, i int) string {
			return rapid.SampledFrom([]string{"", "", fmt.Sprintf("leaf bad%d { type nosuch; } ", i), fmt.Sprintf("leaf badp%d { type m:nosuch; } ", i), fmt.Sprintf("container cb%d { uses nosuchg; } ", i), fmt.Sprintf("identity ib%d { base nosuch; } ", i), fmt.Sprintf("leaf ir%d { type identityref { base m:nosuch; } } ", i), fmt.Sprintf("typedef tb%d { type union { type nosuch; type string; } } leaf lb%d { type tb%d; } ", i, i, i), fmt.Sprintf("augment \"/m:nosuch\" { leaf ab%d { type string; } } ", i), fmt.Sprintf("leaf lr%d { type leafref { path \"/m:nosuch\"; } } ", i)}).Draw(t, label)
		}
		c.Files = append(c.Files, mod("m", body+"leaf top { type string; } "+miss("miss-m", 99)))
		for i := 0; i < n; i++ {
			c.Files = append(c.Files, sub(fmt.Sprintf("s%d", i), "m", fmt.Sprintf("include s%d; leaf sl%d { type string; } grouping sg%d { leaf x%d { type string; } } uses sg%d; ", cyc(i), i, i, i, cyc(i))+miss(fmt.Sprintf("miss-%d", i), i)))
		}
		c.IgnoreCirc = rapid.Bool().Draw(t, "ignore-circular")
	case "import-cycle":
		// the prefix of the imports: ordinary, empty, or the importing module's own
		pfx := rapid.SampledFrom([]string{"o", "o", "\"\"", "self"}).Draw(t, "import-prefix")
		for i := 0; i < n; i++ {
			name := fmt.Sprintf("m%d", i)
			decl, ref := pfx, pfx+":"
			switch pfx {
			case "\"\"":
				ref = ""
			case "self":
				decl, ref = name, name+":"
			}
			c.Files = append(c.Files, mod(name, fmt.Sprintf("import m%d { prefix %s; } typedef t { type %st; } leaf l { type %st; } grouping g { uses %sg; } uses g; identity i { base %si; } container c { uses %snosuch; } leaf l2 { type %snosuch; } identity j { base %snosuch; }", cyc(i), decl, ref, ref, ref, ref, ref, ref, ref)))
		}
	case "fan-in":
		// every definition refers several times to the one before it: the work must not multiply per level
		depth := rapid.IntRange(8, 48).Draw(t, "depth")
		fan := rapid.IntRange(2, 3).Draw(t, "fan")
		var b strings.Builder
		switch rapid.SampledFrom([]string{"typedef-union", "identity-bases", "leaf-union", "uses-twice", "twin-union-families"}).Draw(t, "fan-kind") {
		case "uses-twice":
			// every grouping uses the one before it twice (the second use collides with the first, or both fail)
			base := rapid.SampledFrom([]string{"uses nosuch;", "leaf x { type nosuch; }", "leaf x { type string; }", fmt.Sprintf("uses u%d;", depth)}).Draw(t, "fan-base")
			fmt.Fprintf(&b, "grouping u0 { %s } ", base)
			for i := 1; i <= depth; i++ {
				fmt.Fprintf(&b, "grouping u%d {", i)
				for j := 0; j < fan; j++ {
					fmt.Fprintf(&b, " uses u%d;", i-1)
				}
				b.WriteString(" } ")
			}
			fmt.Fprintf(&b, "container c { uses u%d; } ", depth)
		case "twin-union-families":
			// two structurally identical typedef families; comparing their tops must not compare every pair below
			d := depth / 2
			for _, f := range []string{"p", "q"} {
				fmt.Fprintf(&b, "typedef %s0 { type string; } typedef %sx0 { type string; units u; } ", f, f)
				for i := 1; i <= d; i++ {
					fmt.Fprintf(&b, "typedef %s%d { type union { type %s%d; type %sx%d; } } typedef %sx%d { type union { type %s%d; type %sx%d; } units u; } ", f, i, f, i-1, f, i-1, f, i, f, i-1, f, i-1)
				}
			}
			fmt.Fprintf(&b, "leaf l { type union { type p%d; type q%d; } } ", d, d)
		case "typedef-union":
			base := rapid.SampledFrom([]string{"type nosuch;", "type uint8 { range \"5..1\"; }", "type string;", fmt.Sprintf("type f%d;", depth), "type zz:t;", "type string { pattern \"(\"; }", "type leafref { path \"../nosuch\"; }"}).Draw(t, "fan-base")
			fmt.Fprintf(&b, "typedef f0 { %s } ", base)
			for i := 1; i <= depth; i++ {
				fmt.Fprintf(&b, "typedef f%d { type union {", i)
				for j := 0; j < fan; j++ {
					fmt.Fprintf(&b, " type f%d;", i-1)
				}
				b.WriteString(" } } ")
			}
			fmt.Fprintf(&b, "leaf l { type f%d; } leaf l2 { type union { type f%d; type f%d; } } ", depth, depth, depth-1)
		case "identity-bases":
			base := rapid.SampledFrom([]string{"", "base nosuch;", fmt.Sprintf("base i%d;", depth), "base zz:i;"}).Draw(t, "fan-base")
			fmt.Fprintf(&b, "identity i0 { %s } ", base)
			for i := 1; i <= depth; i++ {
				fmt.Fprintf(&b, "identity i%d {", i)
				for j := 0; j < fan; j++ {
					fmt.Fprintf(&b, " base i%d;", i-rapid.IntRange(1, min(i, 2)).Draw(t, "back"))
				}
				b.WriteString(" } ")
			}
			b.WriteString("leaf l { type identityref { base i0; } } ")
		default:
			// one leaf whose union nests the same (broken) typedef reference at every level
			base := rapid.SampledFrom([]string{"nosuch", "bad", "string"}).Draw(t, "fan-base")
			b.WriteString("typedef bad { type int8 { range \"1..2..3\"; } } leaf l { ")
			for i := 0; i < depth; i++ {
				fmt.Fprintf(&b, "type union { type %s; ", base)
			}
			fmt.Fprintf(&b, "type %s; ", base)
			for i := 0; i < depth; i++ {
				b.WriteString("} ")
			}
			b.WriteString("} ")
		}
		c.Files = append(c.Files, mod("m", wrap(b.String())))
	case "cross-module-typedef-cycle":
		c.Files = append(c.Files, mod("a", "import b { prefix b; } typedef t { type b:t; } leaf l { type t; }"), mod("b", "import a { prefix a; } typedef t { type a:t; }"))
	case "cross-module-uses-cycle":
		c.Files = append(c.Files, mod("a", "import b { prefix b; } grouping g { uses b:g; } container c { uses g; }"), mod("b", "import a { prefix a; } grouping g { uses a:g; }"))
	case "absent":
		// names of modules that are not loaded, some of which could be taken for paths
		odd := func(label string) string {
			return ymodel.Q(rapid.SampledFrom([]string{"absent", "absent", "absent", "/dev/zero", "/dev/null", "../m", "./m", "a/b", "m.yang", "/", "", ".", "..", "/proc/self/cmdline", "absent@2020-01-01", "/dev/zero.yang"}).Draw(t, label))
		}
		revd := rapid.SampledFrom([]string{"", "", " revision-date 2020-01-01;", " revision-date \"/../../../../dev/zero\";", " revision-date \"\";"}).Draw(t, "absent-revision-date")
		c.Files = append(c.Files, mod("m", wrap("leaf l1 { type zz:t; } leaf l2 { type nosuch; } uses zz:g; uses nosuch;")+" import "+odd("absent-import")+" { prefix ab;"+revd+" } include "+odd("absent-include")+"; leaf l3 { type ab:t; } identity i { base ab:i; } identity j { base zz:k; } augment \"/ab:c\" { leaf x { type string; } } deviation \"/ab:c\" { deviate not-supported; }"))
	case "lone-submodule":
		c.Files = append(c.Files, sub("s", "m", "include s2; import other { prefix o; } typedef t { type o:t; } leaf l { type t; } leaf l2 { type nosuch; } identity i { base j; } leaf r { type identityref { base i; } } grouping g { leaf x { type t; } } uses g; augment \"/m:c\" { leaf y { type string; } } deviation \"/m:l\" { deviate not-supported; } rpc op { input { leaf z { type t; } } }"))
		if rapid.Bool().Draw(t, "second-lone") {
			c.Files = append(c.Files, sub("s2", "m", "include s; leaf q { type string; }"))
		}
	case "bad-augment":
		target := rapid.SampledFrom([]string{"/m:l", "/m:ll", "/m:op", "/m:op/m:input", "/m:op/m:nosuch", "/m:ch/m:sl", "/m:ch", "/m:nosuch", "/m:c/m:nosuch", "/zz:c", "m:c", "/", "", "//m:c", "/m:c/", "/m:c/..", "/m:x", "/m:n", "/m:act/m:a", "/m:c/m:a/m:input"}).Draw(t, "target")
		c.Files = append(c.Files, mod("m", fmt.Sprintf("leaf l { type string; } leaf-list ll { type string; } rpc op { } choice ch { leaf sl { type string; } } container c { action a { } } anydata x; notification n { } augment %s { leaf added { type string; } container cc { leaf l { type string; } } uses nosuch; } augment %s { leaf added { type string; } }", ymodel.Q(target), ymodel.Q(target))))
	case "bad-deviation":
		target := rapid.SampledFrom([]string{"/m:l", "/m:nosuch", "/m:c/m:gone", "/m:c", "/m:op/m:input", "/m:op", "/", "", "/m:ll"}).Draw(t, "target")
		dev := rapid.SampledFrom([]string{"deviate not-supported;", "deviate add { default 1; default 2; }", "deviate delete { default 5; min-elements 1; max-elements 2; }", "deviate replace { type nosuch; }", "deviate replace { type string { length \"5..1\"; } }", "deviate bogus;", "deviate add { min-elements -1; max-elements 0; }", "deviate add { max-elements 99999999999999999999; }", "deviate replace { config maybe; mandatory perhaps; }", "deviate not-supported; deviate add { default x; }", "deviate add; deviate replace; deviate delete;"}).Draw(t, "deviate")
		c.Files = append(c.Files, mod("m", "leaf l { type string; default d; } leaf-list ll { type string; } container c { leaf gone { type string; } } rpc op { input { leaf i { type string; } } }"),
			mod("d", fmt.Sprintf("import m { prefix m; } deviation \"/m:c/m:gone\" { deviate not-supported; } deviation %s { %s } deviation %s { %s }", ymodel.Q(target), dev, ymodel.Q(target), dev)))
		c.IgnoreNotSupp = rapid.Bool().Draw(t, "ignore-not-supported")
	case "duplicates":
		c.Files = append(c.Files, mod("m", wrap("leaf a { type string; } leaf a { type int8; } container a { } typedef t { type string; } typedef t { type int8; } grouping g { leaf a { type string; } } grouping g { leaf b { type string; } } uses g; uses g;")+" identity i; identity i; revision 2020-01-01; revision 2020-01-01; rpc a { } notification a { }"),
			mod("m", "leaf other { type string; }"))
		if rapid.Bool().Draw(t, "dup-revision") {
			c.Files = append(c.Files, File{Name: "m@2020-01-01.yang", Text: "module m { namespace \"urn:m\"; prefix m; revision 2020-01-01; }"}, File{Name: "m@2020-01-01b.yang", Text: "module m { namespace \"urn:m2\"; prefix m; revision 2020-01-01; }"})
		}
	case "numbers":
		v := rapid.SampledFrom([]string{"-1", "0", "18446744073709551615", "18446744073709551616", "-18446744073709551615", "-9223372036854775809", "99999999999999999999999", "0x10", "1e5", "", " ", "+", "-", "1.5", "١"}).Draw(t, "value")
		q := ymodel.Q(v)
		fd := rapid.SampledFrom([]string{"0", "1", "18", "19", "63", "64", "65", "100", "128", "255", "256", "257", "320", "-1", "-192", "-256", "4294967297", "18446744073709551617"}).Draw(t, "fraction-digits")
		rng := rapid.SampledFrom([]string{"min..max", "min", "max", "1..10", "min..0 | 1..max", "-1.5..1.5"}).Draw(t, "fd-range")
		c.Files = append(c.Files, mod("fd", fmt.Sprintf("typedef d { type decimal64 { fraction-digits %s; range %s; } } leaf a { type d; } leaf b { type decimal64 { fraction-digits %s; } default 1.5; } leaf u { type union { type decimal64 { fraction-digits %s; } type decimal64 { fraction-digits %s; } type d; } } leaf c { type d { range %s; } }", fd, ymodel.Q(rng), fd, fd, fd, ymodel.Q(rng))))
		c.Files = append(c.Files, mod("m", fmt.Sprintf("leaf a { type decimal64 { fraction-digits %s; range %s; } } leaf b { type enumeration { enum x { value %s; } enum y; } } leaf c { type bits { bit x { position %s; } bit y; } } leaf-list d { type string { length %s; } min-elements %s; max-elements %s; } list e { key k; leaf k { type string; } min-elements %s; max-elements %s; } leaf f { type uint64 { range \"%s..%s | %s\"; } } leaf g { type int8 { range %s; } default %s; }", q, q, q, q, q, q, q, q, q, v, v, v, q, q)))
	case "leafref-union-cycle":
		c.Files = append(c.Files, mod("m", "leaf a { type leafref { path \"../b\"; } } leaf b { type leafref { path \"../a\"; } } leaf c { type leafref { path \"\"; } } leaf d { type leafref; } typedef u { type union; } leaf e { type u; } leaf f { type union { type union { type union { type f; } } } } leaf g { type identityref; } leaf h { type instance-identifier { require-instance maybe; } } leaf i { type enumeration; } leaf j { type bits; } leaf k { type decimal64; }"))
	case "bits-sharing-a-position":
		// goyang accepts several bits on one position; whatever it then answers (names by position, positions by
		// name) must be the same answer every time
		k := rapid.IntRange(2, 5).Draw(t, "bits-on-one-position")
		var b strings.Builder
		for i := 0; i < k; i++ {
			fmt.Fprintf(&b, "bit b%d { position %d; } ", i, rapid.SampledFrom([]int{0, 1, 1, 7}).Draw(t, "position"))
		}
		b.WriteString("bit auto; ")
		c.Files = append(c.Files, mod("m", fmt.Sprintf("typedef flags { type bits { %s} } leaf f { type flags; } leaf g { type bits { %s} } leaf u { type union { type flags; type bits { bit x { position 3; } bit y { position 3; } } } }", b.String(), b.String())))
	case "comment-sequences":
		// the comment openers and the comment closer where no comment is: inside and at the end of unquoted
		// words, after a comment that was already closed, behind the last statement, in a row
		piece := func(label string) string {
			return rapid.SampledFrom([]string{"*/", "/*", "//", "*/*/", "/*/", "*//*", "a*/b", "[a-z]*/[0-9]+", "x/*y", "x//y", "/* a /* b */ c */", "/**/*/", "*/ leaf z { type string; }"}).Draw(t, label)
		}
		var b strings.Builder
		b.WriteString("leaf before { type string; } ")
		for i, n := 0, rapid.IntRange(1, 3).Draw(t, "comment-pieces"); i < n; i++ {
			switch rapid.IntRange(0, 3).Draw(t, "comment-piece-place") {
			case 0:
				fmt.Fprintf(&b, "leaf p%d { type string { pattern %s; } } ", i, piece("piece"))
			case 1:
				fmt.Fprintf(&b, "description %s; ", piece("piece"))
			case 2:
				fmt.Fprintf(&b, "%s ", piece("piece"))
			default:
				fmt.Fprintf(&b, "leaf q%d%s { type string; } ", i, piece("piece"))
			}
		}
		text := mod("m", b.String())
		if rapid.Bool().Draw(t, "piece-after-the-module") {
			text.Text += " " + piece("trailing-piece")
		}
		c.Files = append(c.Files, text)
	case "error-budget":
		// a text with exactly n lexical faults (invalid escapes), n around the number of errors the reader is
		// willing to collect and the size of its token queue: in one string, or one per statement, with sound
		// text before and after; every count must come back as an error list
		n := rapid.SampledFrom([]int{1, 2, 6, 7, 8, 8, 8, 9, 10, 15, 16, 16, 17, 24, 31, 32, 33, 64}).Draw(t, "lexical-faults")
		esc := rapid.SampledFrom([]string{"\\q", "\\d", "\\ ", "\\'"}).Draw(t, "bad-escape")
		var b strings.Builder
		b.WriteString("leaf before { type string; } ")
		if rapid.Bool().Draw(t, "faults-in-one-string") {
			fmt.Fprintf(&b, "description \"%s\"; ", strings.Repeat(esc, n))
		} else {
			for i := 0; i < n; i++ {
				fmt.Fprintf(&b, "leaf f%d { type string; description \"x%sy\"; } ", i, esc)
			}
		}
		b.WriteString(rapid.SampledFrom([]string{"leaf after { type string; } ", "leaf after { type string; description \"open", "leaf after { type string; } /* open", "leaf after { type 'open; }", ""}).Draw(t, "after-the-faults"))
		c.Files = append(c.Files, mod("m", b.String()))
		if rapid.Bool().Draw(t, "second-file-sound") {
			c.Files = append(c.Files, mod("n", "leaf l { type string; }"))
		}
	case "prefix-run":
		// several imports under one prefix - of one another or of the module itself - and a name that starts
		// with a run of that prefix (a:a:a:...:g): wherever a lookup strips a prefix and goes on, the work must
		// not double with every repetition
		k := rapid.IntRange(2, 40).Draw(t, "prefix-run-length")
		run := strings.Repeat("a:", k)
		copies := rapid.IntRange(1, 3).Draw(t, "imports-per-prefix")
		use := rapid.SampledFrom([]string{
			"container c { uses %sg; }",
			"leaf l { type %st; }",
			"identity i { base %sj; }",
			"leaf r { type identityref { base %sj; } }",
			"augment \"/%sx\" { leaf y { type string; } }",
			"deviation \"/%sx\" { deviate not-supported; }",
			"leaf p { type leafref { path \"/%sx\"; } }",
			"%sext arg;",
		}).Draw(t, "prefix-run-use")
		defs := "grouping g { leaf gl { type string; } } typedef t { type string; } identity j; container x { } extension ext { argument a; } "
		if rapid.IntRange(0, 2).Draw(t, "prefix-run-misses") != 0 {
			defs = "" // nothing of that name anywhere: every path has to be walked to its end
		}
		if rapid.Bool().Draw(t, "self-import") {
			imps := strings.Repeat("import m { prefix a; } ", copies)
			c.Files = append(c.Files, mod("m", imps+defs+fmt.Sprintf(use, run)))
		} else {
			c.Files = append(c.Files, mod("m", strings.Repeat("import n { prefix a; } ", copies)+defs+fmt.Sprintf(use, run)))
			c.Files = append(c.Files, mod("n", strings.Repeat("import m { prefix a; } ", copies)+defs))
		}
	case "long-chain":
		// one long chain of definitions, each built on the one before (the work must not grow with the cube
		// of its length); the text stays below the 64 KiB bound
		n := 100 * rapid.IntRange(1, 4).Draw(t, "chain-hundreds")
		if rapid.IntRange(0, 15).Draw(t, "chain-at-the-size-bound") == 0 {
			n = 1600 // about 45 KiB of identities
		}
		if n > MaxChain {
			n = MaxChain
		}
		var b strings.Builder
		switch rapid.SampledFrom([]string{"identities", "typedefs", "groupings", "containers"}).Draw(t, "chain-kind") {
		case "identities":
			b.WriteString("identity i0; ")
			for i := 1; i <= n; i++ {
				fmt.Fprintf(&b, "identity i%d{base i%d;} ", i, i-1)
			}
			b.WriteString("leaf l { type identityref { base i0; } } ")
		case "typedefs":
			b.WriteString("typedef t0 { type string; } ")
			for i := 1; i <= n; i++ {
				fmt.Fprintf(&b, "typedef t%d{type t%d;} ", i, i-1)
			}
			fmt.Fprintf(&b, "leaf l { type t%d; } ", n)
		case "groupings":
			// every grouping's expansion is cached on its own, so the cache is quadratic in the chain length by
			// design of the library; the chain is kept where that stays small
			if n > 300 {
				n = 300
			}
			b.WriteString("grouping g0 { leaf x { type string; } } ")
			for i := 1; i <= n; i++ {
				fmt.Fprintf(&b, "grouping g%d{container c%d{uses g%d;}} ", i, i, i-1)
			}
			fmt.Fprintf(&b, "uses g%d; ", n)
		default:
			// the read-back of the harness walks '..' chains from every node: quadratic per node in the depth
			if n > 300 {
				n = 300
			}
			for i := 0; i < n; i++ {
				fmt.Fprintf(&b, "container c%d{", i)
			}
			b.WriteString("leaf x { type string; }")
			b.WriteString(strings.Repeat("}", n))
		}
		c.Files = append(c.Files, mod("m", b.String()))
	case "enum-unions":
		// unions of enumerations / bits that agree in all but one or two members
		var b strings.Builder
		kind, member, num := "enumeration", "enum", "value"
		if rapid.Bool().Draw(t, "bits") {
			kind, member, num = "bits", "bit", "position"
		}
		one := func(label string) string {
			var s strings.Builder
			fmt.Fprintf(&s, "type %s {", kind)
			for _, nm := range rapid.Permutation([]string{"a", "b", "c"}).Draw(t, label+"-names")[:rapid.IntRange(1, 3).Draw(t, label+"-size")] {
				if v := rapid.IntRange(-1, 2).Draw(t, label+"-value"); v >= 0 {
					fmt.Fprintf(&s, " %s %s { %s %d; }", member, nm, num, v)
				} else {
					fmt.Fprintf(&s, " %s %s;", member, nm)
				}
			}
			s.WriteString(" }")
			return s.String()
		}
		fmt.Fprintf(&b, "typedef e1 { %s } typedef e2 { %s } leaf u1 { type union { %s %s } } leaf u2 { type union { type e1; type e2; %s } } ", one("t1"), one("t2"), one("m1"), one("m2"), one("m3"))
		c.Files = append(c.Files, mod("m", wrap(b.String())))
	case "header-mix":
		// (sub)modules whose header statements are those of the other kind, missing, or both at once: several
		// header faults in one text, of which always the same one must be reported
		for i := 0; i < rapid.IntRange(1, 3).Draw(t, "header-files"); i++ {
			kw := rapid.SampledFrom([]string{"module", "submodule"}).Draw(t, "header-kind")
			var b strings.Builder
			for _, st := range []string{"namespace \"urn:h\";", "prefix h;", "belongs-to m { prefix m; }", "yang-version 1.1;", "belongs-to other;"} {
				if rapid.Bool().Draw(t, "header-stmt") {
					b.WriteString(st + " ")
				}
			}
			name := fmt.Sprintf("h%d", i)
			c.Files = append(c.Files, File{Name: name + ".yang", Text: fmt.Sprintf("%s %s { %sleaf x { type string; } }", kw, name, b.String())})
		}
	default: // choice-case-oddities
		c.Files = append(c.Files, mod("m", "choice c { case a { leaf a { type string; } } leaf a { type string; } case b { choice d { leaf a { type string; } } } default nosuch; } choice e { } choice f { case g { } } list l { key \"a b nosuch\"; leaf a { type string; } } list l2 { } container co { presence p; config maybe; } leaf m { type string; mandatory perhaps; } augment \"/m:c\" { case a { leaf z { type string; } } leaf a { type string; } } augment \"/m:c/m:a\" { leaf w { type string; } } augment \"/m:c/m:a/m:a\" { leaf w { type string; } }"))
	}
	c.StoreUses = rapid.Bool().Draw(t, "store-uses")
	if rapid.IntRange(0, 3).Draw(t, "shuffle") == 0 && len(c.Files) > 1 {
		c.Files = rapid.Permutation(c.Files).Draw(t, "order")
	}
	return c
}

func Gen(t *rapid.T) Case {
	switch rapid.IntRange(0, 9).Draw(t, "generator") {
	case 0, 1, 2, 3:
		return Mutated(t)
	case 4, 5, 6:
		return Soup(t)
	default:
		return Template(t)
	}
}
