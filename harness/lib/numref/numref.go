// Package numref holds the arithmetic references: exact numbers as big
// integers at a fixed decimal scale, interval sets, an independent reader of
// YANG range/length argument strings (RFC 7950 section 9.2.4 / 9.4.4 grammar)
// and the enum/bit numbering fold of sections 9.6.4.2 / 9.7.4.2.
// Nothing here imports goyang.
package numref

import (
	"fmt"
	"math/big"
	"sort"
	"strings"
)

var ten = big.NewInt(10)

// Pow10 returns 10^e.
func Pow10(e int) *big.Int { return new(big.Int).Exp(ten, big.NewInt(int64(e)), nil) }

// Mantissa returns the signed integer neg?-value:value.
func Mantissa(value uint64, neg bool) *big.Int {
	m := new(big.Int).SetUint64(value)
	if neg {
		m.Neg(m)
	}
	return m
}

// Scaled18 returns the number value/10^fd scaled by 10^18, so numbers with
// different fraction digits compare exactly as integers.
func Scaled18(value uint64, neg bool, fd int) *big.Int {
	m := Mantissa(value, neg)
	return m.Mul(m, Pow10(18-fd))
}

// Iv is a closed interval of mantissas.
type Iv struct{ Lo, Hi *big.Int }

func (i Iv) String() string {
	if i.Lo.Cmp(i.Hi) == 0 {
		return i.Lo.String()
	}
	return i.Lo.String() + ".." + i.Hi.String()
}

// Set is a list of intervals; Normalize gives the canonical form.
type Set []Iv

func (s Set) String() string {
	p := make([]string, len(s))
	for i, iv := range s {
		p[i] = iv.String()
	}
	return strings.Join(p, "|")
}

var one = big.NewInt(1)

// Normalize returns the set sorted, disjoint and with adjacent intervals
// (hi+1 == lo) merged. Intervals with Lo > Hi are dropped.
func Normalize(s Set) Set {
	var in Set
	for _, iv := range s {
		if iv.Lo.Cmp(iv.Hi) <= 0 {
			in = append(in, Iv{new(big.Int).Set(iv.Lo), new(big.Int).Set(iv.Hi)})
		}
	}
	sort.SliceStable(in, func(i, j int) bool {
		if c := in[i].Lo.Cmp(in[j].Lo); c != 0 {
			return c < 0
		}
		return in[i].Hi.Cmp(in[j].Hi) < 0
	})
	var out Set
	for _, iv := range in {
		if n := len(out); n > 0 {
			lim := new(big.Int).Add(out[n-1].Hi, one)
			if iv.Lo.Cmp(lim) <= 0 {
				if iv.Hi.Cmp(out[n-1].Hi) > 0 {
					out[n-1].Hi = iv.Hi
				}
				continue
			}
		}
		out = append(out, iv)
	}
	return out
}

// Equal compares two normalised sets.
func Equal(a, b Set) bool {
	if len(a) != len(b) {
		return false
	}
	for i := range a {
		if a[i].Lo.Cmp(b[i].Lo) != 0 || a[i].Hi.Cmp(b[i].Hi) != 0 {
			return false
		}
	}
	return true
}

// Subset reports whether every value of a is in b (both normalised).
func Subset(a, b Set) bool {
	for _, x := range a {
		ok := false
		for _, y := range b {
			if x.Lo.Cmp(y.Lo) >= 0 && x.Hi.Cmp(y.Hi) <= 0 {
				ok = true
				break
			}
		}
		if !ok {
			return false
		}
	}
	return true
}

// IsNormal reports whether s is sorted, disjoint and non-adjacent as written.
func IsNormal(s Set) bool {
	for i, iv := range s {
		if iv.Lo.Cmp(iv.Hi) > 0 {
			return false
		}
		if i > 0 {
			lim := new(big.Int).Add(s[i-1].Hi, one)
			if iv.Lo.Cmp(lim) <= 0 {
				return false
			}
		}
	}
	return true
}

// Parsed is what the reference reader makes of a range/length argument.
type Parsed struct {
	Syntax bool // in the grammar
	Parts  Set  // as written, min/max substituted (only when Syntax)
	// UsesMinMax: a min/max keyword occurs (needs a non-empty parent).
	UsesMinMax bool
	// Excess: some literal has more fraction digits than fd.
	Excess bool
}

func isDigits(s string) bool {
	if s == "" {
		return false
	}
	for _, c := range s {
		if c < '0' || c > '9' {
			return false
		}
	}
	return true
}

// canonInt: "0" / ["-"] positive without leading zeros. "-0" is not canonical.
func canonInt(s string) bool {
	if strings.HasPrefix(s, "-") {
		s = s[1:]
		if s == "0" {
			return false
		}
	}
	if !isDigits(s) {
		return false
	}
	return s == "0" || s[0] != '0'
}

// literal reads a YANG integer-value or decimal-value into a mantissa at fd.
func literal(s string, fd int, decimal bool) (m *big.Int, excess, ok bool) {
	ip, fp := s, ""
	if i := strings.IndexByte(s, '.'); i >= 0 {
		if !decimal {
			return nil, false, false
		}
		ip, fp = s[:i], s[i+1:]
		if !isDigits(fp) {
			return nil, false, false
		}
	}
	neg := strings.HasPrefix(ip, "-")
	abs := strings.TrimPrefix(ip, "-")
	if !isDigits(abs) || (abs != "0" && abs[0] == '0') {
		return nil, false, false
	}
	// "-0" and "-0.0" are spellings of zero (RFC 7950 14: integer-value = ("-" non-negative-integer-value) / ...)
	if len(fp) > fd {
		return nil, true, true
	}
	digits := abs + fp + strings.Repeat("0", fd-len(fp))
	m, _ = new(big.Int).SetString(digits, 10)
	if neg {
		m.Neg(m)
	}
	return m, false, true
}

func trimOptsep(s string) string { return strings.Trim(s, " \t\r\n") }

// ParseRange reads a range or length argument. parent is the normalised
// parent set (nil/empty: none, min/max cannot be resolved).
func ParseRange(s string, fd int, decimal bool, parent Set) Parsed {
	var p Parsed
	if trimOptsep(s) == "" {
		return p
	}
	for _, part := range strings.Split(s, "|") {
		bs := strings.Split(part, "..")
		if len(bs) > 2 {
			return Parsed{}
		}
		var vals [2]*big.Int
		for i, b := range bs {
			b = trimOptsep(b)
			switch b {
			case "min", "max":
				p.UsesMinMax = true
				if len(parent) == 0 {
					vals[i] = nil
				} else if b == "min" {
					vals[i] = parent[0].Lo
				} else {
					vals[i] = parent[len(parent)-1].Hi
				}
			default:
				m, excess, ok := literal(b, fd, decimal)
				if !ok {
					return Parsed{}
				}
				if excess {
					p.Excess = true
					m = new(big.Int)
				}
				vals[i] = m
			}
		}
		if len(bs) == 1 {
			vals[1] = vals[0]
		}
		if vals[0] == nil || vals[1] == nil {
			// unresolved min/max: keep syntax verdict, no parts
			vals[0], vals[1] = new(big.Int), new(big.Int)
		}
		p.Parts = append(p.Parts, Iv{vals[0], vals[1]})
	}
	p.Syntax = true
	return p
}

// Inverted reports whether some written part has lo > hi.
func Inverted(parts Set) bool {
	for _, iv := range parts {
		if iv.Lo.Cmp(iv.Hi) > 0 {
			return true
		}
	}
	return false
}

// Ascending reports whether the parts are written in strictly ascending,
// disjoint order (what RFC 7950 requires of a valid restriction).
func Ascending(parts Set) bool {
	for i, iv := range parts {
		if iv.Lo.Cmp(iv.Hi) > 0 {
			return false
		}
		if i > 0 && iv.Lo.Cmp(parts[i-1].Hi) <= 0 {
			return false
		}
	}
	return true
}

// Member is one enum or bit statement: a name and an optional explicit value.
type Member struct {
	Name     string `json:"name"`
	Explicit bool   `json:"explicit"`
	Value    string `json:"value,omitempty"` // decimal literal when Explicit
}

func (m Member) String() string {
	if m.Explicit {
		return fmt.Sprintf("%s=%s", m.Name, m.Value)
	}
	return m.Name
}

// Numbering folds a member sequence per RFC 7950 9.6.4.2 (enum) / 9.7.4.2
// (bits). It returns the assignment and, if the sequence is invalid, the index
// of the first offending member and the reason. dupValueInvalid selects
// whether an already used value is an error (enums).
func Numbering(ms []Member, min, max *big.Int, dupValueInvalid bool) (assign []*big.Int, badAt int, reason string) {
	names := map[string]bool{}
	used := map[string]bool{}
	var highest *big.Int
	for i, m := range ms {
		if names[m.Name] {
			return assign, i, "duplicate-name"
		}
		var v *big.Int
		if m.Explicit {
			var ok bool
			v, ok = new(big.Int).SetString(m.Value, 10)
			if !ok {
				return assign, i, "unparseable-value"
			}
			if v.Cmp(min) < 0 || v.Cmp(max) > 0 {
				return assign, i, "value-out-of-range"
			}
		} else if highest == nil {
			v = new(big.Int)
		} else {
			if highest.Cmp(max) >= 0 {
				return assign, i, "auto-past-maximum"
			}
			v = new(big.Int).Add(highest, one)
		}
		if v.Cmp(min) < 0 || v.Cmp(max) > 0 {
			// automatic zero below the minimum cannot happen (min <= 0 for both kinds)
			return assign, i, "value-out-of-range"
		}
		if dupValueInvalid && used[v.String()] {
			return assign, i, "duplicate-value"
		}
		names[m.Name] = true
		used[v.String()] = true
		if highest == nil || v.Cmp(highest) > 0 {
			highest = v
		}
		assign = append(assign, v)
	}
	return assign, -1, ""
}
