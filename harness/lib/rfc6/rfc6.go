// Package rfc6 is an independent, table-free reading of RFC 7950 section 6:
// a token reader with source positions (1-based line, 1-based column counted
// in characters), double-quoted string processing (escapes, continuation-line
// indentation, trailing blanks), '+' concatenation and the statement grammar
//
//	statement = keyword [argument] (";" / "{" *statement "}")
//
// It does not import goyang. It also classifies texts that fall into the
// constructs the properties leave outside the claim.
package rfc6

import (
	"fmt"
	"unicode/utf8"
)

type Stmt struct {
	Keyword string
	HasArg  bool
	Arg     string
	Subs    []*Stmt
	Line    int
	Col     int
}

type tokKind int

const (
	tEOF tokKind = iota
	tSemi
	tOpen
	tClose
	tUnq
	tStr // quoted
)

type tok struct {
	k         tokKind
	text      string // raw for unquoted; for quoted: raw body (between quotes)
	dq        bool   // double quoted
	line, col int    // 1-based position of first char (opening quote for strings)
	qcol      int    // tab-expanded 0-based column of the opening quote
	end       int    // rune index after token
	start     int
}

type Result struct {
	OK         bool
	Stmts      []*Stmt
	ErrLine    int
	ErrCol     int
	ErrKind    string
	OutOfClaim string // non-empty: text is in an excluded ambiguity class
	// LexFaults is the number of lexical faults in the whole text, counted
	// conservatively (every unknown escape in every double-quoted string,
	// whether or not it is a pattern argument, plus an unterminated quote or
	// comment).
	LexFaults int
}

type reader struct {
	r    []rune
	i    int
	line int // 1-based
	col  int // 0-based, chars
	tcol int // 0-based, tab expanded
	ooc  string
}

func (rd *reader) adv() rune {
	c := rd.r[rd.i]
	rd.i++
	switch c {
	case '\n':
		rd.line++
		rd.col = 0
		rd.tcol = 0
	case '\t':
		rd.col++
		rd.tcol = (rd.tcol/8 + 1) * 8
	default:
		rd.col++
		rd.tcol++
	}
	return c
}

func (rd *reader) peek(k int) rune {
	if rd.i+k < len(rd.r) {
		return rd.r[rd.i+k]
	}
	return -1
}

func isWS(c rune) bool { return c == ' ' || c == '\t' || c == '\r' || c == '\n' }
func isDelim(c rune) bool {
	return c == -1 || isWS(c) || c == ';' || c == '{' || c == '}' || c == '"' || c == '\''
}

type lexErr struct {
	line, col int
	kind      string
}

// next returns the next raw token.
func (rd *reader) next() (tok, *lexErr) {
	for {
		for rd.i < len(rd.r) && isWS(rd.r[rd.i]) {
			rd.adv()
		}
		if rd.i >= len(rd.r) {
			return tok{k: tEOF, line: rd.line, col: rd.col + 1}, nil
		}
		c := rd.r[rd.i]
		if c == '/' && rd.peek(1) == '/' {
			for rd.i < len(rd.r) && rd.r[rd.i] != '\n' {
				rd.adv()
			}
			continue
		}
		if c == '/' && rd.peek(1) == '*' {
			l, cc := rd.line, rd.col+1
			rd.adv()
			rd.adv()
			closed := false
			for rd.i < len(rd.r) {
				if rd.r[rd.i] == '*' && rd.peek(1) == '/' {
					rd.adv()
					rd.adv()
					closed = true
					break
				}
				rd.adv()
			}
			if !closed {
				return tok{}, &lexErr{l, cc, "unterminated-comment"}
			}
			continue
		}
		break
	}
	t := tok{line: rd.line, col: rd.col + 1, start: rd.i}
	c := rd.r[rd.i]
	switch c {
	case ';':
		rd.adv()
		t.k = tSemi
	case '{':
		rd.adv()
		t.k = tOpen
	case '}':
		rd.adv()
		t.k = tClose
	case '\'':
		rd.adv()
		s := rd.i
		for rd.i < len(rd.r) && rd.r[rd.i] != '\'' {
			rd.adv()
		}
		if rd.i >= len(rd.r) {
			return tok{}, &lexErr{t.line, t.col, "unterminated-squote"}
		}
		t.k = tStr
		t.text = string(rd.r[s:rd.i])
		rd.adv()
	case '"':
		t.qcol = rd.tcol
		rd.adv()
		s := rd.i
		for rd.i < len(rd.r) && rd.r[rd.i] != '"' {
			if rd.r[rd.i] == '\\' && rd.i+1 < len(rd.r) {
				rd.adv()
			}
			rd.adv()
		}
		if rd.i >= len(rd.r) {
			// An unknown escape (or a trailing backslash) inside the
			// unterminated body is a second fault.
			body := rd.r[s:]
			for i := 0; i < len(body); i++ {
				if body[i] == '\\' {
					if i+1 >= len(body) {
						return tok{}, &lexErr{t.line, t.col, "unterminated-dquote+bad-escape"}
					}
					switch body[i+1] {
					case 'n', 't', '"', '\\':
					default:
						return tok{}, &lexErr{t.line, t.col, "unterminated-dquote+bad-escape"}
					}
					i++
				}
			}
			return tok{}, &lexErr{t.line, t.col, "unterminated-dquote"}
		}
		t.k = tStr
		t.dq = true
		t.text = string(rd.r[s:rd.i])
		rd.adv()
	default:
		if c == '+' && (rd.peek(1) == '"' || rd.peek(1) == '\'') {
			rd.adv()
			t.k = tUnq
			t.text = "+"
			break
		}
		s := rd.i
		for !isDelim(rd.peek(0)) {
			// comment sequences inside an unquoted token: out of claim
			if rd.i > s || true {
				a, b := rd.peek(0), rd.peek(1)
				if rd.i > s && ((a == '/' && (b == '/' || b == '*')) || (a == '*' && b == '/')) {
					rd.ooc = "comment-sequence-in-unquoted"
				}
				if rd.i == s && a == '*' && b == '/' {
					rd.ooc = "comment-sequence-in-unquoted"
				}
			}
			rd.adv()
		}
		t.k = tUnq
		t.text = string(rd.r[s:rd.i])
	}
	t.end = rd.i
	return t, nil
}

// dequote converts the raw body of a double-quoted string.
// bodyLine/bodyCol: position (1-based line, 0-based char col) of first body char.
func (rd *reader) dequote(t tok, pattern bool) (string, *lexErr) {
	body := []rune(t.text)
	stripTo := t.qcol + 1 // number of columns stripped (0-based exclusive end)
	var out []rune
	var esc []bool             // parallel: produced by escape
	line, col := t.line, t.col // col is 1-based col of quote; first body char is col+1
	col++                      // now 1-based col of current char
	i := 0
	for i < len(body) {
		c := body[i]
		switch c {
		case '\\':
			if i+1 >= len(body) {
				// cannot happen: lexer guarantees body doesn't end with lone backslash before quote
				return "", &lexErr{line, col, "bad-escape"}
			}
			n := body[i+1]
			switch n {
			case 'n':
				out = append(out, '\n')
				esc = append(esc, true)
			case 't':
				out = append(out, '\t')
				esc = append(esc, true)
			case '"':
				out = append(out, '"')
				esc = append(esc, true)
			case '\\':
				out = append(out, '\\')
				esc = append(esc, true)
			default:
				if !pattern {
					return "", &lexErr{line, col, "bad-escape"}
				}
				out = append(out, '\\', n)
				esc = append(esc, true, true)
			}
			if n == '\n' {
				line++
				col = 1
			} else {
				col += 2
			}
			i += 2
		case '\n':
			// strip trailing blanks
			j := len(out)
			for j > 0 && (out[j-1] == ' ' || out[j-1] == '\t') {
				if esc[j-1] {
					rd.ooc = "escape-blank-before-linebreak"
				}
				j--
			}
			if j > 0 && out[j-1] == '\r' {
				rd.ooc = "crlf-in-dqstring"
			}
			out = out[:j]
			esc = esc[:j]
			out = append(out, '\n')
			esc = append(esc, false)
			i++
			line++
			col = 1
			// strip leading blanks up to stripTo columns
			tc := 0
			for i < len(body) && (body[i] == ' ' || body[i] == '\t') {
				w := 1
				if body[i] == '\t' {
					w = (tc/8+1)*8 - tc
				}
				if tc+w <= stripTo {
					tc += w
					i++
					col++
					continue
				}
				if tc < stripTo {
					// straddles the strip column
					rd.ooc = "tab-straddles-strip-column"
				}
				break
			}
		default:
			out = append(out, c)
			esc = append(esc, false)
			i++
			col++
		}
	}
	return string(out), nil
}

func Parse(text string) Result {
	if !utf8.ValidString(text) {
		return Result{OutOfClaim: "invalid-utf8"}
	}
	rd := &reader{r: []rune(text), line: 1}
	var pushed []tok
	var lerr *lexErr
	next := func() tok {
		if n := len(pushed); n > 0 {
			t := pushed[n-1]
			pushed = pushed[:n-1]
			return t
		}
		if lerr != nil {
			return tok{k: tEOF}
		}
		t, e := rd.next()
		if e != nil {
			lerr = e
			return tok{k: tEOF}
		}
		return t
	}
	fail := func(l, c int, kind string) Result {
		return Result{ErrLine: l, ErrCol: c, ErrKind: kind, OutOfClaim: rd.ooc}
	}
	var perr *Result
	var parseStmts func(depth int) ([]*Stmt, bool)
	parseStmts = func(depth int) ([]*Stmt, bool) {
		var out []*Stmt
		for {
			t := next()
			if lerr != nil {
				r := fail(lerr.line, lerr.col, lerr.kind)
				perr = &r
				return nil, false
			}
			switch t.k {
			case tEOF:
				if depth > 0 {
					r := fail(t.line, t.col, "eof-in-block")
					perr = &r
					return nil, false
				}
				return out, true
			case tClose:
				if depth == 0 {
					r := fail(t.line, t.col, "unexpected-close")
					perr = &r
					return nil, false
				}
				return out, true
			case tUnq:
			case tStr:
				r := fail(t.line, t.col, "keyword-quoted")
				perr = &r
				return nil, false
			default:
				r := fail(t.line, t.col, "keyword-punctuation")
				perr = &r
				return nil, false
			}
			s := &Stmt{Keyword: t.text, Line: t.line, Col: t.col}
			pattern := t.text == "pattern"
			a := next()
			if lerr != nil {
				r := fail(lerr.line, lerr.col, lerr.kind)
				perr = &r
				return nil, false
			}
			switch a.k {
			case tUnq:
				s.HasArg = true
				s.Arg = a.text
				a = next()
			case tStr:
				s.HasArg = true
				for {
					piece := a.text
					if a.dq {
						p, e := rd.dequote(a, pattern)
						if e != nil {
							r := fail(e.line, e.col, e.kind)
							perr = &r
							return nil, false
						}
						piece = p
					}
					s.Arg += piece
					n1 := next()
					if lerr != nil {
						break
					}
					if n1.k == tUnq && n1.text == "+" {
						n2 := next()
						if lerr != nil {
							break
						}
						if n2.k == tStr {
							a = n2
							continue
						}
						pushed = append(pushed, n2, n1)
					} else {
						pushed = append(pushed, n1)
					}
					break
				}
				a = next()
			}
			if lerr != nil {
				r := fail(lerr.line, lerr.col, lerr.kind)
				perr = &r
				return nil, false
			}
			switch a.k {
			case tSemi:
			case tOpen:
				subs, ok := parseStmts(depth + 1)
				if !ok {
					return nil, false
				}
				s.Subs = subs
			case tEOF:
				r := fail(a.line, a.col, "eof-in-statement")
				perr = &r
				return nil, false
			default:
				r := fail(a.line, a.col, "expected-semi-or-open")
				perr = &r
				return nil, false
			}
			out = append(out, s)
		}
	}
	stmts, ok := parseStmts(0)
	if !ok {
		res := *perr
		res.OutOfClaim = rd.ooc
		res.LexFaults = countLexFaults(text)
		return res
	}
	return Result{OK: true, Stmts: stmts, OutOfClaim: rd.ooc}
}

// countLexFaults scans the whole text tolerantly.
func countLexFaults(text string) int {
	rd := &reader{r: []rune(text), line: 1}
	n := 0
	for {
		t, e := rd.next()
		if e != nil {
			return n + 1
		}
		if t.k == tEOF {
			return n
		}
		if t.k == tStr && t.dq {
			body := []rune(t.text)
			for i := 0; i < len(body); i++ {
				if body[i] == '\\' && i+1 < len(body) {
					switch body[i+1] {
					case 'n', 't', '"', '\\':
					default:
						n++
					}
					i++
				}
			}
		}
	}
}

func (s *Stmt) String() string {
	return fmt.Sprintf("%s %v %q @%d:%d %v", s.Keyword, s.HasArg, s.Arg, s.Line, s.Col, s.Subs)
}
