package rfc6

import "strings"

// Chooser supplies the random decisions of the printer (rapid in the
// checks), so that every choice shrinks and replays.
type Chooser interface {
	// Intn returns a number in [0, n).
	Intn(label string, n int) int
}

// Node is an intended statement: what the printed text must parse to.
type Node struct {
	Keyword string  `json:"k"`
	HasArg  bool    `json:"h,omitempty"`
	Arg     string  `json:"a,omitempty"`
	Subs    []*Node `json:"s,omitempty"`
	// Line/Col are filled in by the printer: position of the keyword.
	Line int `json:"-"`
	Col  int `json:"-"`
}

// Printer renders a forest with randomised, semantics-preserving layout and
// tracks line, character column and tab-expanded column as it goes.
type Printer struct {
	ch   Chooser
	b    strings.Builder
	line int // 1-based
	col  int // 0-based, characters
	tcol int // 0-based, tabs expanded to multiples of 8
	// Plain restricts the layout to single spaces/newlines and no comments.
	Plain bool
	// NoSlashComment avoids comment bodies that start with '/' or end with '*'.
	NoSlashComment bool
	lastUnq        bool // last token emitted was unquoted
}

func NewPrinter(ch Chooser) *Printer { return &Printer{ch: ch, line: 1} }

func (p *Printer) String() string { return p.b.String() }

func (p *Printer) emit(s string) {
	for _, r := range s {
		p.b.WriteRune(r)
		switch r {
		case '\n':
			p.line++
			p.col = 0
			p.tcol = 0
		case '\t':
			p.col++
			p.tcol = (p.tcol/8 + 1) * 8
		default:
			p.col++
			p.tcol++
		}
	}
}

var commentBodies = []string{" c ", "", " é世 ", " \uFFFD\U0001D11E ", " \" ' ", " x\n   y ", "\t", " ; { } ", "* ", " a // b ", "/ x", " +\n"}

// sep emits optional or required token separation. need: whitespace is
// required (between two unquoted tokens). afterUnq: a comment may not follow
// directly.
func (p *Printer) sep(need bool) {
	afterUnq := p.lastUnq
	p.lastUnq = false
	if p.Plain {
		if need {
			p.emit(" ")
		}
		return
	}
	n := p.ch.Intn("sep-count", 4)
	if need && n == 0 {
		n = 1
	}
	for i := 0; i < n; i++ {
		k := p.ch.Intn("sep-kind", 12)
		if (need || afterUnq) && i == 0 && k >= 8 {
			k = p.ch.Intn("sep-ws", 6)
		}
		switch k {
		case 0, 1, 2:
			p.emit(" ")
		case 3:
			p.emit("\n")
		case 4:
			p.emit("\t")
		case 5:
			p.emit("\r\n")
		case 6:
			p.emit("\n" + strings.Repeat(" ", p.ch.Intn("indent", 12)))
		case 7:
			p.emit("\n" + strings.Repeat("\t", 1+p.ch.Intn("tabs", 2)))
		case 8, 9:
			body := commentBodies[p.ch.Intn("comment-body", len(commentBodies))]
			if p.NoSlashComment && (strings.HasPrefix(body, "/") || strings.HasSuffix(body, "*")) {
				body = " c "
			}
			p.emit("/*" + body + "*/")
		default:
			body := commentBodies[p.ch.Intn("line-comment-body", len(commentBodies))]
			body = strings.ReplaceAll(body, "\n", " ")
			p.emit("//" + body + "\n")
		}
	}
}

// UnquotedOK reports whether s can be written as an unquoted token.
func UnquotedOK(s string) bool {
	if s == "" {
		return false
	}
	if strings.ContainsAny(s, " \t\r\n\"';{}") {
		return false
	}
	if strings.Contains(s, "//") || strings.Contains(s, "/*") || strings.Contains(s, "*/") {
		return false
	}
	return true
}

func (p *Printer) unquoted(s string) {
	p.emit(s)
	p.lastUnq = true
}

// Forest prints the statements.
func (p *Printer) Forest(ns []*Node) {
	for _, n := range ns {
		p.Stmt(n)
	}
	p.sep(false)
}

func (p *Printer) Stmt(n *Node) {
	p.sep(false)
	n.Line, n.Col = p.line, p.col+1
	p.unquoted(n.Keyword)
	if n.HasArg {
		p.arg(n.Arg, n.Keyword == "pattern")
	}
	if len(n.Subs) == 0 && p.ch.Intn("semi-or-empty-block", 8) > 0 {
		p.sep(false)
		p.emit(";")
		p.lastUnq = false
		return
	}
	p.sep(false)
	p.emit("{")
	p.lastUnq = false
	for _, c := range n.Subs {
		p.Stmt(c)
	}
	p.sep(false)
	p.emit("}")
	p.lastUnq = false
}

func (p *Printer) arg(v string, pattern bool) {
	styles := []int{2, 3} // 0 unquoted, 1 single, 2 double, 3 concatenation
	if !strings.Contains(v, "'") {
		styles = append(styles, 1, 1)
	}
	if UnquotedOK(v) {
		styles = append(styles, 0, 0, 0)
	}
	switch styles[p.ch.Intn("arg-style", len(styles))] {
	case 0:
		p.sep(true)
		p.unquoted(v)
	case 1:
		p.sep(false)
		p.single(v)
	case 2:
		p.sep(false)
		p.double(v, pattern)
	default:
		rs := []rune(v)
		k := 2 + p.ch.Intn("pieces", 3)
		cuts := make([]int, 0, k+1)
		cuts = append(cuts, 0)
		for i := 1; i < k; i++ {
			c := 0
			if len(rs) > 0 {
				c = p.ch.Intn("cut", len(rs)+1)
			}
			cuts = append(cuts, c)
		}
		cuts = append(cuts, len(rs))
		// sort
		for i := range cuts {
			for j := i + 1; j < len(cuts); j++ {
				if cuts[j] < cuts[i] {
					cuts[i], cuts[j] = cuts[j], cuts[i]
				}
			}
		}
		for i := 0; i+1 < len(cuts); i++ {
			piece := string(rs[cuts[i]:cuts[i+1]])
			// a pattern piece must not end with a lone backslash that would pair up with the next piece's start; piece boundaries inside "\x" are avoided by escaping
			if i > 0 {
				p.sep(false)
				p.emit("+")
				// after '+': nothing, or whitespace first
				if p.ch.Intn("plus-tight", 3) > 0 {
					p.lastUnq = true // forces whitespace before any comment
					p.sep(true)
				}
				p.lastUnq = false
			} else {
				p.sep(false)
			}
			if !strings.Contains(piece, "'") && p.ch.Intn("piece-single", 2) == 0 {
				p.single(piece)
			} else {
				p.double(piece, false)
			}
		}
	}
}

func (p *Printer) single(v string) {
	p.emit("'" + v + "'")
	p.lastUnq = false
}

func isBlank(r rune) bool { return r == ' ' || r == '\t' }

// filler emits blanks that advance the tab-expanded column to exactly width
// w (from column 0), never straddling it.
func (p *Printer) filler(w int) {
	for p.tcol < w {
		next := (p.tcol/8 + 1) * 8
		if next <= w && p.ch.Intn("filler-tab", 3) == 0 {
			p.emit("\t")
		} else {
			p.emit(" ")
		}
	}
}

func (p *Printer) double(v string, pattern bool) {
	strip := p.tcol + 1 // columns stripped from continuation lines
	p.emit("\"")
	rs := []rune(v)
	for i := 0; i < len(rs); i++ {
		r := rs[i]
		switch r {
		case '"':
			p.emit("\\\"")
		case '\\':
			raw := false
			if pattern && i+1 < len(rs) {
				switch rs[i+1] {
				case 'n', 't', '"', '\\', '\n', '\t':
				default:
					raw = p.ch.Intn("raw-backslash", 2) == 0
				}
			}
			if raw {
				p.emit("\\")
			} else {
				p.emit("\\\\")
			}
		case '\t':
			lit := true
			if p.ch.Intn("tab-escape", 3) == 0 {
				lit = false
			}
			// a blank that a literal line break follows must not come from an escape: the line break is escaped in that case (below)
			if lit {
				p.emit("\t")
			} else {
				p.emit("\\t")
			}
		case '\n':
			literal := p.ch.Intn("newline-literal", 3) > 0
			if i > 0 && (isBlank(rs[i-1]) || rs[i-1] == '\r') {
				literal = false // trailing blanks would be stripped; CR LF inside a string is outside the claim
			}
			if !literal {
				p.emit("\\n")
				break
			}
			// noise: trailing blanks before the line break are stripped
			if i > 0 && p.ch.Intn("trailing-noise", 4) == 0 {
				p.emit(strings.Repeat(" ", 1+p.ch.Intn("noise-len", 3)))
				if p.ch.Intn("noise-tab", 3) == 0 {
					p.emit("\t")
				}
			}
			p.emit("\n")
			// continuation line
			nextBlank := i+1 < len(rs) && isBlank(rs[i+1])
			if nextBlank {
				p.filler(strip)
			} else {
				w := p.ch.Intn("cont-indent", strip+1)
				if p.ch.Intn("cont-full", 2) == 0 {
					w = strip
				}
				p.filler(w)
			}
		default:
			p.emit(string(r))
		}
	}
	p.emit("\"")
	p.lastUnq = false
}

// Equal compares an intended forest with a parsed one, positions included
// when withPos.
func EqualForest(want []*Node, got []*Stmt, withPos bool) string {
	if len(want) != len(got) {
		return "statement count differs"
	}
	for i := range want {
		w, g := want[i], got[i]
		if w.Keyword != g.Keyword || w.HasArg != g.HasArg || w.Arg != g.Arg {
			return "statement " + w.Keyword + " differs: intended arg " + quote(w.Arg) + ", read " + quote(g.Arg) + " (keyword " + quote(g.Keyword) + ")"
		}
		if withPos && (w.Line != g.Line || w.Col != g.Col) {
			return "position of " + w.Keyword + " differs"
		}
		if d := EqualForest(w.Subs, g.Subs, withPos); d != "" {
			return d
		}
	}
	return ""
}

func quote(s string) string {
	var b strings.Builder
	b.WriteByte('"')
	for _, r := range s {
		switch r {
		case '\n':
			b.WriteString(`\n`)
		case '\t':
			b.WriteString(`\t`)
		case '\r':
			b.WriteString(`\r`)
		case '"':
			b.WriteString(`\"`)
		default:
			b.WriteRune(r)
		}
	}
	b.WriteByte('"')
	return b.String()
}
